"""C13 — library calls never modify the caller's arrays unless copy=False is requested.

c13.call   every public function x synthesised arguments (non-zero diagonals, signed entries, odd labels); the
           seed-accepting ones run under a SimRNG policy (what gets written depends on the draws); own-raise paths included
c13.abort  fault enumeration: every seed-accepting routine is cut by SimAbort at EVERY draw index of a short run
           (exhaustive up to 64 draws, sampled beyond): the statement says "returns or raises"
"""
import inspect
import random

import numpy as np

from sim import env
from sim.rng import SimRNG, SimAbort, SimBudget
from sim.worlds import callermem as CM
from . import rewire

bct = env.bct
PROP = 'C13'
FUNCS = CM.public_functions()
SEEDED = [f for f in FUNCS if 'seed' in inspect.signature(getattr(bct, f)).parameters]
ENUM_LIMIT = 64


def one_call(fname, aseed, rng, invalid=None):
    """returns (status, message, info). status in ok | modified | legal_write | not_understood"""
    rnd = random.Random(aseed)
    sy = CM.synth(fname, rnd)
    if sy is None:
        return 'not_understood', None, {}
    args, kwargs = sy
    if invalid == 'shape' and args and isinstance(args[0], np.ndarray) and args[0].ndim == 2:
        args[0] = args[0][:, :-1].copy()  # non-square: most routines raise somewhere inside
    elif invalid == 'asym' and args and isinstance(args[0], np.ndarray) and args[0].ndim == 2:
        args[0] = args[0].copy()
        args[0][0, 1] += 1.5
    elif invalid == 'nan' and args and isinstance(args[0], np.ndarray) and args[0].dtype.kind == 'f':
        args[0] = args[0].copy()
        args[0][0, -1] = np.nan
    elif invalid == 'zeros' and args and isinstance(args[0], np.ndarray) and args[0].ndim == 2:
        args[0] = np.zeros_like(args[0])  # the empty network
    elif invalid == 'isolated' and args and isinstance(args[0], np.ndarray) and args[0].ndim == 2 and args[0].shape[0] == args[0].shape[1]:
        args[0] = args[0].copy()
        x = rnd.randrange(len(args[0]))
        args[0][x, :] = 0
        args[0][:, x] = 0  # a node without any connection (and without a self-connection)
    elif invalid == 'labels' and len(args) > 1 and isinstance(args[1], np.ndarray) and args[1].ndim == 1:
        args[1] = args[1][:-1].copy()  # label vector of the wrong length
    snaps = CM.snapshot(args, kwargs)
    f = getattr(bct, fname)
    names = list(inspect.signature(f).parameters)
    kw = dict(kwargs)
    if rng is not None:
        kw['seed'] = rng
    info = {'raised': None}
    try:
        f(*args, **kw)
    except SimAbort:
        info['raised'] = 'SimAbort'
    except SimBudget:
        info['raised'] = 'SimBudget'
    except Exception as e:
        info['raised'] = type(e).__name__
    d, where = CM.compare(snaps, args, kwargs, names)
    if d is None:
        return 'ok', None, info
    if fname in CM.COPY_FALSE and kwargs.get('copy') is False and where == 0:
        return 'legal_write', None, info
    return 'modified', d, info


def execute_call(case, mode):
    fname = case['routine']
    rng = None
    if fname in SEEDED:
        rng = rewire.make_rng(case, mode)
    status, msg, info = one_call(fname, case['aseed'], rng, case.get('invalid'))
    res = {'routine': fname, 'outcome': 'ok', 'ndraws': rng.ndraws if rng else 0, 'forced': rng._st.forced if rng else 0,
           'fired': rng.fired() if rng else {}, 'trace': rng.trace() if rng else None, 'probes': {}, 'extra': {},
           'digest': '%s:%s:%s:%s' % (fname, case['aseed'], case.get('invalid'), rng.digest() if rng else ''), 'nontrivial': status != 'not_understood',
           'states': [fname]}
    pr = res['probes']
    if status == 'not_understood':
        res['outcome'] = 'discard'
        pr['args_not_understood:' + fname] = 1
        return res
    pr['kind:' + ('stochastic_under_simrng' if rng else 'deterministic_plain')] = 1
    if info['raised']:
        pr['returned_by_raising'] = 1
        if case.get('invalid'):
            pr['own_raise_path:' + case['invalid']] = 1
        if info['raised'] == 'SimBudget':
            res['outcome'] = 'budget'
    else:
        pr['returned_normally'] = 1
    if status == 'legal_write':
        pr['legal_copy_false_write'] = 1
    if status == 'modified':
        res['outcome'] = 'violation'
        res['vclass'] = 'caller_array_modified'
        res['msg'] = '%s (%s): argument %s' % (fname, 'raised ' + info['raised'] if info['raised'] else 'returned', msg)
    return res


def execute_abort(case, mode):
    fname = case['routine']
    base = SimRNG(case['seed'], policy=case.get('policy'), budget=3000)
    status, msg, info = one_call(fname, case['aseed'], base)
    D = base.ndraws
    res = {'routine': fname, 'outcome': 'ok', 'ndraws': D, 'forced': base._st.forced, 'fired': base.fired(), 'trace': None, 'probes': {}, 'extra': {},
           'digest': '%s:%s:%s' % (fname, case['aseed'], base.digest()), 'nontrivial': D > 0, 'states': [fname]}
    pr = res['probes']
    if status == 'not_understood':
        res['outcome'] = 'discard'
        return res
    fail = None
    if status == 'modified':
        fail = ('unaborted run', msg, info)
    points = list(range(min(D, ENUM_LIMIT)))
    if D > ENUM_LIMIT:
        rnd = random.Random(case['seed'] ^ 0x77)
        points += sorted(rnd.sample(range(ENUM_LIMIT, D), min(16, D - ENUM_LIMIT)))
        pr['abort_runs_sampled_beyond_64'] = 1
    else:
        pr['abort_runs_exhaustive'] = 1
    if case.get('only_point') is not None:
        points = [case['only_point']]
    n_ab = 0
    for k in points:
        if fail:
            break
        r = SimRNG(case['seed'], policy=case.get('policy'), budget=3000, abort_at=k)
        st, m, inf = one_call(fname, case['aseed'], r)
        if inf['raised'] == 'SimAbort':
            n_ab += 1
        if st == 'modified':
            fail = ('abort at draw %d of %d' % (k, D), m, inf)
            res['abort_point'] = k
    pr['abort_points_enumerated'] = n_ab
    res['fired'] = dict(res['fired'], abort_at_draw=n_ab)
    if fail:
        res['outcome'] = 'violation'
        res['vclass'] = 'caller_array_modified'
        res['msg'] = '%s, %s (%s): argument %s' % (fname, fail[0], 'raised ' + str(fail[2]['raised']) if fail[2]['raised'] else 'returned', fail[1])
    return res


class _Call(object):
    PROP = PROP
    ID = 'c13.call'
    WALL_S = 8
    TIERS = {'quick': 150 * 152, 'thorough': 1500 * 152}

    def generate_r(self, sub, r):
        rnd = random.Random(sub)
        fname = FUNCS[r % len(FUNCS)]
        invalid = None
        if rnd.random() < 0.25:
            # NaN entries are deliberately not injected: several deterministic routines loop forever on them (not C13's concern)
            invalid = rnd.choice(('shape', 'asym', 'labels', 'zeros', 'isolated'))  # degenerate input takes the early-exit and error paths
        pol = rewire.pick_policy(rnd) if fname in SEEDED else {'name': 'none'}
        return {'scn': self.ID, 'routine': fname, 'aseed': rnd.randrange(2 ** 31), 'seed': sub, 'policy': pol, 'budget': 20000, 'trace': None, 'invalid': invalid}

    def generate(self, sub):
        return self.generate_r(sub, sub)

    def execute(self, case, mode):
        return execute_call(case, mode)

    def shrink_candidates(self, case):
        if case.get('invalid'):
            c = dict(case)
            c['invalid'] = None
            yield c
        if (case.get('policy') or {}).get('name') not in ('fair', 'none') and case.get('trace') is None:
            c = dict(case)
            c['policy'] = {'name': 'fair'}
            yield c

    def view(self, case, res):
        return {'scenario': self.ID, 'function': case['routine'], 'arg_seed': case['aseed'], 'invalid_input': case.get('invalid'), 'policy': case['policy'],
                'draws': res['ndraws'], 'outcome': res['outcome'], 'probes': res['probes']}


class _Abort(object):
    PROP = PROP
    ID = 'c13.abort'
    TIERS = {'quick': 40 * len(SEEDED), 'thorough': 4000 * len(SEEDED)}

    def generate_r(self, sub, r):
        rnd = random.Random(sub)
        fname = SEEDED[r % len(SEEDED)]
        pol = rewire.pick_policy(rnd)
        return {'scn': self.ID, 'routine': fname, 'aseed': rnd.randrange(2 ** 31), 'seed': sub, 'policy': pol, 'trace': None}

    def generate(self, sub):
        return self.generate_r(sub, sub)

    def execute(self, case, mode):
        return execute_abort(case, mode)

    def shrink_candidates(self, case):
        # minimise the fault trace: a fair schedule, then the single earliest abort point that still shows the write
        if (case.get('policy') or {}).get('name') != 'fair':
            c = dict(case)
            c['policy'] = {'name': 'fair'}
            yield c
        if case.get('only_point') is None:
            for k in list(range(0, 64)) + [80, 100, 150, 200, 300, 500]:
                c = dict(case)
                c['only_point'] = k
                yield c

    def view(self, case, res):
        return {'scenario': self.ID, 'function': case['routine'], 'arg_seed': case['aseed'], 'policy': case['policy'], 'draws_in_unaborted_run': res['ndraws'],
                'abort_points_enumerated': res['probes'].get('abort_points_enumerated'), 'outcome': res['outcome']}


SCENARIOS = [_Call(), _Abort()]
RULE = ('c13.call: every public function of the bct namespace (%d; %d excluded with reason) in round-robin x synthesised arguments with non-zero '
        'diagonals, signed entries and odd community labels; 25%% of calls use deliberately invalid input (non-square, asymmetric, short label '
        'vector) to take the own-raise paths; the %d seed-accepting routines run under a SimRNG policy. c13.abort: for each seed-accepting routine '
        'one unaborted run counts its draws, then the call is repeated with SimAbort injected at EVERY draw index (exhaustive for runs of at most '
        '64 draws, 16 sampled indices beyond). After each call (returned or raised) every argument array is compared element for element, dtype and '
        'shape with its pristine copy; the only legal write is the first argument of the eight copy=False utilities. non-trivial = arguments '
        'understood and call made; distinct = distinct (function, argument seed, input fault, draw trace)' % (len(FUNCS), len(CM.EXCLUDED), len(SEEDED)))


def tiers(tier):
    return SCENARIOS
