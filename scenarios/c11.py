"""C11 — constrained rewiring honours connectivity, lattice cost and forbidden cells."""
from sim.util import dec
from sim.oracles import graph as G
from . import rewire

PROP = 'C11'


class _Scn(object):
    PROP = PROP

    def __init__(self, sid, routines, tiers, connected=False, invalid_frac=0.0):
        self.ID = sid
        self.routines = routines
        self.TIERS = tiers
        self.connected = connected
        self.invalid_frac = invalid_frac
        self.nmax = 12

    def generate(self, sub):
        return rewire.gen_case(sub, self.routines, self.ID, connected=self.connected, nmax=self.nmax, invalid_frac=self.invalid_frac)

    def execute(self, case, mode):
        res = rewire.execute(case, mode)
        facts = res['facts'][PROP]
        res.pop('out', None)
        if case.get('expect_reject'):
            res['probes']['invalid_input_' + case['expect_reject']] = 1
            res['nontrivial'] = True
            res['digest'] = res['digest'] + ':' + case['expect_reject'] + str(case['seed'] % 997)
        if facts:
            res['outcome'] = 'violation'
            res['vclass'], res['msg'] = facts[0]
            if res.get('breach'):
                res['msg'] += ' | first internal breach: %s at swap %d, draw %d: %s' % res['breach']
        elif res['outcome'] == 'crash':
            res['outcome'] = 'ok'
        if res.get('breach') and res['outcome'] != 'violation':
            res['probes']['internal_breach_unconfirmed'] = 1
        return res

    def shrink_candidates(self, case):
        directed = case['routine'] in rewire.DIR
        exp = case.get('expect_reject')

        def keep(W):
            if len(W) < 4:
                return False
            if exp == 'disconnected':
                return not G.connected_und(W)
            if exp == 'asymmetric':
                return not G.is_symmetric(W)
            if not G.two_disjoint_edges(W, directed):
                return False
            if case['routine'] in rewire.CONNECTED:
                return G.strongly_connected(W) if directed else G.connected_und(W)
            return True
        return rewire.shrink_candidates(case, keep=keep)

    def view(self, case, res):
        W = dec(case['W'])
        return {'scenario': self.ID, 'seed': case['seed'], 'routine': case['routine'], 'n': len(W), 'edges': int((W != 0).sum()),
                'family': case['meta'].get('family'), 'expect_reject': case.get('expect_reject'),
                'params': {k: (v if not isinstance(v, dict) else 'array') for k, v in case['params'].items()},
                'policy': case['policy'], 'draws': res['ndraws'], 'forced': res['forced'], 'accepted_swaps': res['swaps'],
                'outcome': res['outcome'], 'first_draws': [[e[0], e[1], e[3]] for e in res['trace'][:8]]}


class _Long(_Scn):
    """long sparse chains with heavy weights: the connectedness search runs deep (hundreds of expansion steps), which is
    where anything that accumulates along the search (products, counters, float32 range) would give out"""
    WALL_S = 120

    def generate(self, sub):
        import random
        import numpy as np
        from sim.util import enc
        rnd = random.Random(sub)
        routine = rnd.choice(self.routines)
        directed = routine in rewire.DIR
        n = rnd.randint(60, 140 if self.nmax <= 12 else 220)
        kind = rnd.choice(('f32_heavy', 'f32_heavy', 'f64_huge', 'int_wide', 'bin'))
        W = np.zeros((n, n))
        order = list(range(n))
        rnd.shuffle(order)

        def w():
            return {'f32_heavy': rnd.uniform(50, 100), 'f64_huge': rnd.uniform(5e5, 2e6), 'int_wide': float(rnd.randint(1, 1000)), 'bin': 1.0}[kind]
        for x in range(n):
            a, b = order[x], order[(x + 1) % n]
            W[a, b] = w()
            if not directed:
                W[b, a] = W[a, b]
        for _ in range(rnd.randint(1, 4)):
            a, b = rnd.sample(range(n), 2)
            if W[a, b] == 0:
                W[a, b] = w()
                if not directed:
                    W[b, a] = W[a, b]
        if kind == 'f32_heavy':
            W = W.astype(np.float32)
        params = {'itr': 1}
        if routine in rewire.LAT:
            params['D'] = None
        return {'scn': self.ID, 'routine': routine, 'W': enc(W), 'params': params, 'seed': sub, 'policy': {'name': 'fair'}, 'budget': 400000,
                'trace': None, 'meta': {'n': n, 'family': 'long_ring_chords', 'wkind': kind, 'directed': directed}}

    def shrink_candidates(self, case):
        return iter(())


SCENARIOS = [
    _Scn('c11.conn', ('randmio_und_connected', 'randmio_dir_connected', 'latmio_und_connected', 'latmio_dir_connected'),
         {'quick': 15000, 'thorough': 350000}, connected=True, invalid_frac=0.15),
    _Scn('c11.cost', ('latmio_und', 'latmio_dir', 'latmio_und_connected', 'latmio_dir_connected'), {'quick': 9000, 'thorough': 200000}),
    _Scn('c11.mask', ('randomize_graph_partial_und',), {'quick': 6000, 'thorough': 150000}),
    _Long('c11.long', ('randmio_und_connected', 'randmio_und_connected', 'latmio_und_connected', 'randmio_dir_connected'), {'quick': 32, 'thorough': 1200}),
]

RULE = ('one run = one call of a constrained rewiring routine with every draw decided by the seeded SimRNG: the four *_connected routines on '
        'connected / strongly connected, mostly bridge-rich inputs (rings, trees+chords, clique paths, two cliques; 15% deliberately '
        'disconnected or asymmetric inputs that must be rejected), the four latticisers with caller-supplied or default D, '
        'randomize_graph_partial_und with random masks; non-trivial = at least one accepted swap (or an invalid-input run); '
        'distinct = distinct sha1 of the draw trace')


def tiers(tier):
    for s in SCENARIOS:
        s.nmax = 12 if tier == 'quick' else 16
    return SCENARIOS
