"""C19 — NBS reports true suprathreshold components and correct permutation p-values.

The stream of relabellings is the schedule: every permutation(nx+ny) / sign vector is a SimRNG draw, so
the simulator knows relabelling u exactly and the oracle recomputes "largest component under that
relabelling" independently.  Serial world: bct.nbs.nbs_bct.  Pool world: bct.nbs_parallel.nbs_bct under
the in-process fake pool (sim/worlds/pool.py).
"""
import random

import numpy as np

from sim import env
from sim.rng import SimBudget
from sim.util import enc, dec
from sim.oracles import graph as G
from . import rewire

bct = env.bct
PROP = 'C19'
MARGIN = 1e-9
UNDECIDABLE = [0]  # bumped by tstats() when an unpaired connection is constant within both groups at different values


def tstats(xm, ym, tail, paired):
    """independent t statistics per edge; xm, ym: (edges, subjects). Non-finite where undefined."""
    nx, ny = xm.shape[1], ym.shape[1]
    with np.errstate(all='ignore'):
        if paired:
            d = xm - ym
            sd = d.std(axis=1, ddof=1)
            t = d.mean(axis=1) / (sd / np.sqrt(nx))
        else:
            vx, vy = xm.var(axis=1, ddof=1), ym.var(axis=1, ddof=1)
            sp = np.sqrt(((nx - 1) * vx + (ny - 1) * vy) / (nx + ny - 2))
            t = (xm.mean(axis=1) - ym.mean(axis=1)) / (sp * np.sqrt(1.0 / nx + 1.0 / ny))
            # a connection with one and the same value in every subject of both groups has no defined statistic
            # (0/0); in floating point mean and variance of such a row are rounding noise, so decide it exactly
            allsame = (np.ptp(np.hstack((xm, ym)), axis=1) == 0)
            t = np.where(allsame, np.nan, t)
            # (both groups constant at different values: pooled variance 0 or a rounding residue, statistic +-inf or ~1e15 -
            # perfect separation exceeds every threshold in both cases; bct used to return 0 here, repaired in 9f25e08)
    if tail == 'both':
        t = np.abs(t)
    elif tail == 'left':
        t = -t
    return t


def comp_sizes(n, ii, jj, supra):
    """edge counts of the connected components formed by supra-threshold edges; returns (labels per node, {label: edges})."""
    A = np.zeros((n, n))
    A[ii[supra], jj[supra]] = 1
    A = A + A.T
    lab = G.components_und(A)
    sizes = {}
    for e in np.nonzero(supra)[0]:
        sizes[lab[ii[e]]] = sizes.get(lab[ii[e]], 0) + 1
    return lab, sizes


EXACT_ZERO = [False]  # set by oracle(): integer-valued data and equal group sizes (or a paired test)


def near(t, thresh):
    """a statistic within the float margin of the threshold cannot be judged - except the exact tie 0 == 0: equal group means
    give exactly 0.0 in any implementation, and 'exceeds' is strict"""
    f = np.isfinite(t)
    d = np.abs(t[f] - thresh)
    close = d < MARGIN
    if thresh == 0 and EXACT_ZERO[0]:
        # equal group means give exactly 0.0 in any implementation only when the sums are exact and divided by the same n:
        # integer-valued data with equal group sizes (or paired differences). Otherwise 0 vs 1e-17 is rounding luck.
        close &= (t[f] != 0.0)
    if thresh < 0 and np.isnan(t).any():
        return True  # an undefined statistic (0/0) against a negative threshold: bct's convention is 0, the property is silent
    return bool(np.any(close))


def oracle(x, y, thresh, k, tail, paired, out, trace, unordered=None):
    """returns (facts, discard_reason)"""
    pvals, adj, null = out
    n = x.shape[0]
    nx, ny = x.shape[2], y.shape[2]
    ii, jj = np.nonzero(np.triu(np.ones((n, n)), 1))
    xm = x[ii, jj, :].astype(np.float64)
    ym = y[ii, jj, :].astype(np.float64)
    UNDECIDABLE[0] = 0
    EXACT_ZERO[0] = bool((paired or nx == ny) and np.all(xm == np.round(xm)) and np.all(ym == np.round(ym)) and max(np.abs(xm).max(), np.abs(ym).max()) < 2 ** 40)
    t = tstats(xm, ym, tail, paired)
    if UNDECIDABLE[0]:
        return [], 'zero_variance_separation'
    if near(t, thresh):
        return [], 'near_threshold'
    supra = np.zeros(len(t), dtype=bool)
    supra[np.isfinite(t)] = t[np.isfinite(t)] > thresh
    supra |= (t == np.inf)
    v = []
    adj = np.asarray(adj)
    pvals = np.atleast_1d(np.asarray(pvals, dtype=float))
    null = np.atleast_1d(np.asarray(null, dtype=float))
    if adj.shape != (n, n):
        return [('adj', 'adjacency output has shape %s' % (adj.shape,))], None
    if not np.array_equal(adj, adj.T):
        v.append(('adj', 'adjacency output is not symmetric'))
    marked = adj[ii, jj] != 0
    if not np.array_equal(marked, supra):
        v.append(('adj', 'adjacency marks %s but the supra-threshold connections are %s' % (
            sorted(zip(ii[marked].tolist(), jj[marked].tolist()))[:8], sorted(zip(ii[supra].tolist(), jj[supra].tolist()))[:8])))
        return v, None
    if np.any(adj[np.arange(n), np.arange(n)] != 0) or np.any(adj[jj, ii][~supra] != 0):
        v.append(('adj', 'adjacency marks cells that are not supra-threshold connections'))
    lab, sizes = comp_sizes(n, ii, jj, supra)
    # labelled by component: same component <-> same label
    lab_of_comp = {}
    for e in np.nonzero(supra)[0]:
        c = lab[ii[e]]
        l = adj[ii[e], jj[e]]
        if c in lab_of_comp and lab_of_comp[c] != l:
            v.append(('labels', 'connections of one component carry different labels (%s and %s)' % (lab_of_comp[c], l)))
            break
        lab_of_comp[c] = l
    if len(set(lab_of_comp.values())) != len(lab_of_comp):
        v.append(('labels', 'two different components share a label'))
    if len(pvals) != len(sizes):
        v.append(('pvals', '%d p-values for %d components' % (len(pvals), len(sizes))))
    if len(null) != k:
        v.append(('null', '%d null values for k=%d' % (len(null), k)))
    if v:
        return v, None
    for c, l in lab_of_comp.items():
        li = int(round(float(l)))
        if abs(l - li) > 1e-12 or not (1 <= li <= len(pvals)):
            v.append(('labels', 'component label %r is not in 1..%d' % (l, len(pvals))))
            break
        exp = np.sum(null >= sizes[c]) / float(k)
        if abs(pvals[li - 1] - exp) > 1e-12:
            v.append(('pvals', 'component %d has %d connections; p=%r but the fraction of the returned null values >= %d is %r' % (li, sizes[c], float(pvals[li - 1]), sizes[c], exp)))
            break
    # null[u] under the recorded relabelling u
    draws = [e for e in trace if e[0] in ('permutation', 'rand')]
    if unordered is not None and len(draws) != k:
        # relabellings could not be attributed to null positions (e.g. several permutations per pool task): every null value
        # must at least be the largest component size under ONE of the relabellings that were drawn
        vals = set()
        both = np.hstack((xm, ym))
        usable = bool(unordered)
        for e in unordered:
            if paired and e[0] == 'rand' and np.asarray(e[3]).size == nx:
                sgn = np.sign(0.5 - np.asarray(e[3], dtype=float).reshape(-1))
                d = both * np.hstack((sgn, sgn))[None, :]
            elif (not paired) and e[0] == 'permutation' and e[1] == nx + ny:
                d = both[:, np.asarray(e[3], dtype=int)]
            else:
                usable = False
                break
            tp = tstats(d[:, :nx], d[:, nx:], tail, paired)
            if UNDECIDABLE[0]:
                return v, 'zero_variance_separation'
            if near(tp, thresh):
                return v, 'near_threshold'
            sp = np.zeros(len(tp), dtype=bool)
            sp[np.isfinite(tp)] = tp[np.isfinite(tp)] > thresh
            sp |= (tp == np.inf)
            _, sz = comp_sizes(n, ii, jj, sp)
            vals.add(max(sz.values()) if sz else 0)
        if usable:
            bad = [float(z) for z in null if z not in vals]
            if bad:
                v.append(('null', 'null value(s) %s are not the largest component size under any of the %d relabellings that were drawn (achievable: %s)' % (
                    bad[:4], len(unordered), sorted(vals))))
        return v, None
    if len(draws) == k:
        both = np.hstack((xm, ym))
        for u, e in enumerate(draws):
            if paired:
                if e[0] != 'rand' or np.asarray(e[3]).size != nx:
                    return v, None
                sgn = np.sign(0.5 - np.asarray(e[3], dtype=float).reshape(-1))
                d = both * np.hstack((sgn, sgn))[None, :]
                tp = tstats(d[:, :nx], d[:, nx:], tail, True)
            else:
                if e[0] != 'permutation' or e[1] != nx + ny:
                    return v, None  # not a relabelling in the form this oracle understands: null[u] is not judged
                d = both[:, np.asarray(e[3], dtype=int)]
                tp = tstats(d[:, :nx], d[:, nx:], tail, False)
            if UNDECIDABLE[0]:
                return v, 'zero_variance_separation'
            if near(tp, thresh):
                return v, 'near_threshold'
            sp = np.zeros(len(tp), dtype=bool)
            sp[np.isfinite(tp)] = tp[np.isfinite(tp)] > thresh
            sp |= (tp == np.inf)
            _, sz = comp_sizes(n, ii, jj, sp)
            exp = max(sz.values()) if sz else 0
            if null[u] != exp:
                v.append(('null', 'null[%d]=%r but the largest component under the recorded relabelling %s has %d connection(s)' % (
                    u, float(null[u]), (np.asarray(e[3]).reshape(-1).tolist() if not paired else sgn.astype(int).tolist()), exp)))
                break
    return v, None


def observed(x, y, thresh, tail, paired):
    n = x.shape[0]
    ii, jj = np.nonzero(np.triu(np.ones((n, n)), 1))
    t = tstats(x[ii, jj, :].astype(np.float64), y[ii, jj, :].astype(np.float64), tail, paired)
    return t


def same_components(adj1, adj2):
    a1, a2 = np.asarray(adj1) != 0, np.asarray(adj2) != 0
    if not np.array_equal(a1, a2):
        return False
    # same grouping of marked cells
    l1, l2 = np.asarray(adj1)[a1], np.asarray(adj2)[a2]
    m = {}
    for p, q in zip(l1.tolist(), l2.tolist()):
        if m.setdefault(p, q) != q:
            return False
    return len(set(m.values())) == len(m)


def run_nbs(fn, x, y, p, rng):
    xa, ya = x.copy(), y.copy()
    if p.get('layout') == 'F':
        xa, ya = np.asfortranarray(xa), np.asfortranarray(ya)  # column-major stacks (np.dstack / MATLAB files)
    return fn(xa, ya, p['thresh'], k=p['k'], tail=p['tail'], paired=p['paired'], verbose=bool(p.get('verbose')), seed=rng)


def execute(case, mode, fn=None, label='nbs_bct'):
    x, y = dec(case['x']), dec(case['y'])
    p = case['params']
    rng = rewire.make_rng(case, mode)
    fn = fn or bct.nbs_bct
    out = exc = None
    try:
        out = run_nbs(fn, x, y, p, rng)
        outcome = 'ok'
    except SimBudget:
        outcome = 'budget'
    except bct.BCTParamError as e:
        outcome, exc = 'rejected', e
    except rewire.INTERNAL_ERRORS as e:
        outcome, exc = 'crash', e
    trace_events = [(e[0], e[1], e[2], e[4]) for e in rng.events]
    res = {'routine': label, 'outcome': outcome, 'ndraws': rng.ndraws, 'forced': rng._st.forced, 'fired': rng.fired(), 'trace': rng.trace(),
           'digest': rng.digest(), 'probes': {}, 'extra': {}, 'nontrivial': outcome == 'ok'}
    facts = []
    pr = res['probes']
    if outcome == 'ok':
        try:
            facts, discard = oracle(x, y, p['thresh'], p['k'], p['tail'], p['paired'], out, trace_events)
        except Exception as e:
            facts, discard = [('shape', 'return value could not be judged: %r' % (e,))], None
        if discard and not facts:
            res['outcome'] = 'discard'
            pr['discarded_' + discard] = 1
            res['nontrivial'] = False
            return res
        pvals, adj, null = out
        pr['components'] = len(np.atleast_1d(pvals))
        pr['runs_with_2plus_components'] = 1 if len(np.atleast_1d(pvals)) >= 2 else 0
        pr['null_at_least_observed'] = int(np.sum(np.asarray(null) >= np.max([np.sum(np.asarray(adj) == l) / 2 for l in np.unique(np.asarray(adj)[np.asarray(adj) != 0])])))
        pr['null_zero'] = int(np.sum(np.asarray(null) == 0))
        if not facts and case.get('meta_check'):
            # metamorphic reruns: swap the groups together with the tail; reorder subjects within a group
            t_obs = observed(x, y, p['thresh'], p['tail'], p['paired'])
            try:
                swapped_tail = {'left': 'right', 'right': 'left', 'both': 'both'}[p['tail']]
                o2 = run_nbs(fn, y, x, dict(p, tail=swapped_tail), rng)
                if not same_components(out[1], o2[1]):
                    facts.append(('metamorphic', 'swapping the two groups together with the tail changed the observed components'))
                rnd = random.Random(case['seed'])
                px = list(range(x.shape[2]))
                rnd.shuffle(px)
                py = px if p['paired'] else list(range(y.shape[2]))
                if not p['paired']:
                    rnd.shuffle(py)
                o3 = run_nbs(fn, x[:, :, px], y[:, :, py], p, rng)
                # reordering changes floating-point summation order: only compare when no statistic is within the margin (checked above)
                if not same_components(out[1], o3[1]):
                    facts.append(('metamorphic', 'reordering subjects within a group changed the observed components'))
                pr['metamorphic_reruns'] = 2
            except bct.BCTParamError:
                facts.append(('metamorphic', 'a metamorphic rerun was rejected although the original call was accepted'))
            except SimBudget:
                pass
    elif outcome == 'crash':
        facts = [('crash:' + type(exc).__name__, '%s raised %s: %s' % (label, type(exc).__name__, str(exc)[:200]))]
    elif outcome == 'rejected':
        pr['rejected:' + str(exc)[:30]] = 1
        # 'Unsuitable threshold' must mean: no connection exceeds the threshold
        UNDECIDABLE[0] = 0
        EXACT_ZERO[0] = False
        t = observed(x, y, p['thresh'], p['tail'], p['paired'])
        if not near(t, p['thresh']) and not UNDECIDABLE[0]:
            any_supra = bool(np.any(t[np.isfinite(t)] > p['thresh']) or np.any(t == np.inf))
            if any_supra and 'Unsuitable threshold' in str(exc):
                facts = [('adj', 'call rejected with "Unsuitable threshold" although %d connection(s) exceed the threshold' % int(np.sum(t[np.isfinite(t)] > p['thresh']) + np.sum(t == np.inf)))]
    if facts:
        res['outcome'] = 'violation'
        res['vclass'], res['msg'] = facts[0]
        res['msg'] = '%s(thresh=%s, k=%d, tail=%s, paired=%s): %s' % (label, p['thresh'], p['k'], p['tail'], p['paired'], res['msg'])
    return res


def gen_stacks(rnd, nmax=8):
    n = rnd.randint(4, nmax)
    paired = rnd.random() < 0.35
    nx = rnd.randint(3, 8)
    ny = nx if paired else rnd.randint(3, 8)
    pairs = [(a, b) for a in range(n) for b in range(a + 1, n)]
    effect = {}
    # planted effects of either sign on a connected-ish subset + a few scattered ones
    hub = rnd.randrange(n)
    for (a, b) in pairs:
        r = rnd.random()
        if (a == hub or b == hub) and r < 0.5:
            effect[(a, b)] = rnd.choice((1.5, 2.5, -2.0))
        elif r < 0.12:
            effect[(a, b)] = rnd.choice((2.0, -2.0, 3.0))
    const = set(pr for pr in pairs if rnd.random() < 0.1 and pr not in effect)
    x = np.zeros((n, n, nx))
    y = np.zeros((n, n, ny))
    for (a, b) in pairs:
        if (a, b) in const:
            c = round(rnd.uniform(-1, 1), 2)
            x[a, b, :] = x[b, a, :] = c
            y[a, b, :] = y[b, a, :] = c
            continue
        for s in range(nx):
            x[a, b, s] = x[b, a, s] = round(rnd.gauss(0, 1) + effect.get((a, b), 0.0), 3)
        for s in range(ny):
            y[a, b, s] = y[b, a, s] = round(rnd.gauss(0, 1), 3)
    dt = 'float64'
    r = rnd.random()
    if r >= 0.9:
        # sparse small-integer counts: many exactly equal group means (statistic exactly 0) and absent connections
        dt = 'smallint'
        x = np.zeros((n, n, nx))
        y = np.zeros((n, n, ny))
        for (a, b) in pairs:
            if rnd.random() < 0.3:
                continue  # absent in every subject
            for s in range(nx):
                x[a, b, s] = x[b, a, s] = float(rnd.choice((0, 0, 1, 2, 3)) + (2 if (a, b) in effect else 0))
            for s in range(ny):
                y[a, b, s] = y[b, a, s] = float(rnd.choice((0, 0, 1, 2, 3)))
    if dt == 'smallint' and paired:
        # some connections differ by the same non-zero constant in every pair (an exact shift): +-inf observed, ordinary
        # finite statistics once the signs are flipped
        for (a, b) in pairs:
            if rnd.random() < 0.15:
                y[a, b, :] = y[b, a, :] = x[a, b, :] + rnd.choice((1.0, 2.0, -1.0))
    if 0.25 <= r < 0.33:
        # the unit of measurement: t statistics are scale-free, absolute tolerances are not
        sc = rnd.choice((1e-9, 1e-6, 1e3, 1e6))
        x, y = x * sc, y * sc
        dt = 'scaled'
    if r < 0.25:
        # count-like data in a narrow integer type (streamline counts): same statistics, other container
        dt = rnd.choice(('int8', 'int16', 'uint8', 'uint16', 'int32', 'int64', 'float32'))
        scale = {'int8': 12, 'uint8': 25, 'int16': 300, 'uint16': 300, 'int32': 60000, 'int64': 1000, 'float32': 1}[dt]
        if dt.startswith('u'):
            x, y = x + 4.5, y + 4.5
        x = np.clip(np.round(x * scale) if dt != 'float32' else x, np.iinfo(dt).min if dt != 'float32' else -1e9, np.iinfo(dt).max if dt != 'float32' else 1e9).astype(dt)
        y = np.clip(np.round(y * scale) if dt != 'float32' else y, np.iinfo(dt).min if dt != 'float32' else -1e9, np.iinfo(dt).max if dt != 'float32' else 1e9).astype(dt)
    return x, y, paired, {'n': n, 'nx': nx, 'ny': ny, 'effects': len(effect), 'constant_edges': len(const), 'dtype': dt}


class _Scn(object):
    PROP = PROP
    ID = 'c19.serial'
    TIERS = {'quick': 8000, 'thorough': 200000}
    nmax = 8

    def generate(self, sub):
        rnd = random.Random(sub)
        x, y, paired, meta = gen_stacks(rnd, self.nmax)
        p = {'thresh': rnd.choice((1.0, 1.5, 2.0, 2.5, 3.0)) + rnd.choice((0.0, 0.013, 0.0271)) if rnd.random() < 0.9 else rnd.choice((0, 0, -0.5)), 'k': rnd.randint(5, 40),
             'tail': rnd.choice(('both', 'left', 'right')), 'paired': paired}
        if rnd.random() < 0.1:
            p['layout'] = 'F'
        if rnd.random() < 0.05:
            p['verbose'] = True  # the per-permutation reporting path
        pol = rewire.pick_policy(rnd)
        if pol['name'] != 'fair':
            pol = dict(pol, rate=rnd.choice((0.1, 0.3, 0.6)), burst=rnd.choice((1, 2, 3)), site_frac=1.0)
        return {'scn': self.ID, 'routine': 'nbs_bct', 'x': enc(x), 'y': enc(y), 'params': p, 'seed': sub, 'policy': pol, 'budget': 5000,
                'trace': None, 'meta': meta, 'meta_check': rnd.random() < 0.3}

    def execute(self, case, mode):
        return execute(case, mode)

    def shrink_candidates(self, case):
        x, y = dec(case['x']), dec(case['y'])
        p = case['params']

        def mk(**kw):
            c = dict(case)
            c.update(kw)
            return c
        if (case.get('policy') or {}).get('name', 'fair') != 'fair' and case.get('trace') is None:
            yield mk(policy={'name': 'fair'})
        if case.get('meta_check'):
            yield mk(meta_check=False)
        if p['k'] > 1:
            yield mk(params=dict(p, k=max(1, p['k'] // 2)), trace=None)
            yield mk(params=dict(p, k=p['k'] - 1), trace=None)
        n = x.shape[0]
        if n > 3:
            for a in range(n):
                idx = [b for b in range(n) if b != a]
                yield mk(x=enc(x[np.ix_(idx, idx)]), y=enc(y[np.ix_(idx, idx)]), trace=None)
        if not p['paired']:
            if x.shape[2] > 2:
                yield mk(x=enc(x[:, :, :-1]), trace=None)
            if y.shape[2] > 2:
                yield mk(y=enc(y[:, :, :-1]), trace=None)
        elif x.shape[2] > 2:
            yield mk(x=enc(x[:, :, :-1]), y=enc(y[:, :, :-1]), trace=None)

    def view(self, case, res):
        return {'scenario': self.ID, 'seed': case['seed'], 'meta': case['meta'], 'params': case['params'], 'policy': case['policy'],
                'relabellings_drawn': res['ndraws'], 'forced': res['forced'], 'outcome': res['outcome'], 'components': res['probes'].get('components'),
                'first_relabelling': [[e[0], e[1], e[3]] for e in (res.get('trace') or [])[:1]]}


SCENARIOS = [_Scn()]
RULE = ('one run = one nbs_bct call on generated subject stacks (n 4..8 nodes, groups of 3..8 subjects, equal for paired; planted effects of either '
        'sign around a hub plus scattered ones; constant zero-variance connections equal across groups; thresholds off the 0.5 grid; tail in '
        'both/left/right; k 5..40) with every relabelling (permutation of subjects, or sign-flip vector when paired) decided by the seeded SimRNG '
        '(fair, identity, reverse, rotation = group swap, adjacent transposition, repeated relabelling, all-flip / no-flip / alternating sign '
        'vectors); 30% of runs add two metamorphic reruns; runs where any statistic lies within 1e-9 of the threshold under the observed or any '
        'recorded relabelling are discarded and counted; non-trivial = the call returned; distinct = distinct sha1 of the relabelling trace. c19.pool runs the same workload through '
        'bct.nbs_parallel.nbs_bct with multiprocessing replaced by an in-process pool that pickles every task and result, assigns chunks to 1..8 '
        'simulated workers and lets a seeded scheduler decide which worker runs next; a second schedule must give the same result; 5% of runs '
        'inject a failing task')


# ---------------------------------------------------------------------------------------------------
# pool world: bct.nbs_parallel.nbs_bct under the fake pool
import bct.nbs_parallel as NP  # noqa: E402
from sim.worlds.pool import FakeMP, TaskError  # noqa: E402
from sim.rng import SimRNG  # noqa: E402


class _Recorder(object):
    """Stands in for the name get_rng inside bct.nbs_parallel: same generators, but recording."""

    def __init__(self, mp):
        self.mp = mp
        self.by_task = {}

    def __call__(self, seed=None):
        if isinstance(seed, np.random.RandomState) or seed is None or seed is np.random:
            return NP_get_rng(seed)
        try:
            r = SimRNG(seed, budget=1000)
        except Exception:
            return NP_get_rng(seed)
        if int(seed) != (int(seed) & 0xffffffff):
            return NP_get_rng(seed)
        self.by_task.setdefault(self.mp.running_task, []).append(r)
        return r


NP_get_rng = NP.get_rng


def pool_call(x, y, p, seed, workers, mp):
    rec = _Recorder(mp)
    saved = (NP.multiprocessing, NP.get_rng)
    NP.multiprocessing, NP.get_rng = mp, rec
    try:
        out = NP.nbs_bct(x.copy(), y.copy(), p['thresh'], k=p['k'], tail=p['tail'], paired=p['paired'], verbose=bool(p.get('verbose')), seed=seed, workers=workers)
    finally:
        NP.multiprocessing, NP.get_rng = saved
    return out, rec


def execute_pool(case, mode):
    x, y = dec(case['x']), dec(case['y'])
    p = case['params']
    pp = case['pool']
    res = {'routine': 'nbs_parallel.nbs_bct', 'outcome': 'ok', 'ndraws': 0, 'forced': 0, 'fired': {}, 'trace': None, 'probes': {}, 'extra': {},
           'nontrivial': False, 'digest': None}
    pr = res['probes']
    facts = []
    gs0 = np.random.get_state()
    mp = FakeMP(pp['sched'], cpu=pp['cpu'], chunksize=pp.get('chunksize'), fail_task=pp.get('fail_task'))
    try:
        out, rec = pool_call(x, y, p, pp['seed'], pp['workers'], mp)
    except bct.BCTParamError as e:
        res['outcome'] = 'rejected'
        pr['rejected:' + str(e)[:30]] = 1
        return res
    except TaskError:
        # an injected task failure must propagate out of the call (Pool.map re-raises)
        res['outcome'] = 'ok'
        res['nontrivial'] = True
        res['digest'] = 'taskfail:%s' % case['seed']
        pr['pool_task_failure_propagated'] = 1
        res['fired'] = {'pool_task_exception': 1}
        return res
    except rewire.INTERNAL_ERRORS as e:
        res['outcome'] = 'violation'
        res['vclass'], res['msg'] = 'crash:' + type(e).__name__, 'nbs_parallel.nbs_bct raised %s: %s' % (type(e).__name__, str(e)[:200])
        return res
    if pp.get('fail_task') is not None and pp['fail_task'] < p['k']:
        facts.append(('pool', 'task %d failed in a worker but the call returned normally' % pp['fail_task']))
    res['nontrivial'] = True
    res['ndraws'] = sum(len(v) for v in rec.by_task.values())
    res['fired'] = {'pool_workers_%d' % min(mp.pools[0].workers if mp.pools else 0, 8): 1}
    if mp.out_of_order():
        pr['pool_tasks_interleaved_out_of_order'] = 1
        res['fired']['pool_out_of_order_completion'] = 1
    pr['pool_maps'] = mp.maps
    # relabelling per task, as recorded at the get_rng seam
    trace = []
    ok_trace = True
    for u in range(p['k']):
        rs = rec.by_task.get(u) or []
        evs = [e for r in rs for e in r.events if e[0] in ('permutation', 'rand')]
        if len(evs) != 1:
            ok_trace = False
            break
        e = evs[0]
        trace.append((e[0], e[1], e[2], e[4]))
    unordered = None
    if not ok_trace:
        trace = []
        pr['pool_relabellings_not_attributed'] = 1
        unordered = [(e[0], e[1], e[2], e[4]) for rs in rec.by_task.values() for r in rs for e in r.events if e[0] in ('permutation', 'rand')]
    f2, discard = oracle(x, y, p['thresh'], p['k'], p['tail'], p['paired'], out, trace, unordered=unordered)
    if discard and not f2:
        res['outcome'] = 'discard'
        pr['discarded_' + discard] = 1
        res['nontrivial'] = False
        return res
    facts += f2
    res['digest'] = 'pool:%s:%s' % (case['seed'], mp.order)
    if not facts:
        # the result must not depend on the schedule: other worker count, chunking and interleaving
        mp2 = FakeMP(pp['sched'] ^ 0x9e3779b9, cpu=pp['cpu2'], chunksize=pp.get('chunksize2'))
        try:
            out2, _ = pool_call(x, y, p, pp['seed'], pp['workers2'], mp2)
            same = all(np.array_equal(np.asarray(a), np.asarray(b)) for a, b in zip(out, out2))
            if not same:
                facts.append(('pool', 'result depends on the pool schedule: workers=%s order=%s vs workers=%s order=%s' % (pp['workers'], mp.order[:12], pp['workers2'], mp2.order[:12])))
            pr['pool_schedule_pairs_compared'] = 1
        except Exception as e:
            facts.append(('pool', 'second schedule raised %r' % (e,)))
    gs1 = np.random.get_state()
    if not (np.array_equal(gs0[1], gs1[1]) and gs0[2] == gs1[2]):
        pr['pool_parent_global_stream_moved'] = 1
    if facts:
        res['outcome'] = 'violation'
        res['vclass'], res['msg'] = facts[0]
        res['msg'] = 'nbs_parallel.nbs_bct(thresh=%s, k=%d, tail=%s, paired=%s, seed=%s, workers=%s): %s' % (
            p['thresh'], p['k'], p['tail'], p['paired'], pp['seed'], pp['workers'], res['msg'])
    return res


class _PoolScn(_Scn):
    ID = 'c19.pool'
    TIERS = {'quick': 2000, 'thorough': 50000}

    def generate(self, sub):
        case = _Scn.generate(self, sub)
        rnd = random.Random(sub ^ 0x51ed27)
        case['scn'] = self.ID
        case['routine'] = 'nbs_parallel.nbs_bct'
        case['params']['k'] = rnd.randint(3, 16)
        case['policy'] = {'name': 'pool'}
        case['pool'] = {'sched': rnd.randrange(2 ** 31), 'workers': rnd.choice((1, 2, 3, 4, 8, -1)), 'cpu': rnd.randint(1, 8),
                        'chunksize': rnd.choice((None, 1, 2, 5)), 'seed': rnd.choice((None, None, 0, 1, 12345)),
                        'workers2': rnd.choice((1, 2, 5, -1)), 'cpu2': rnd.randint(1, 8), 'chunksize2': rnd.choice((None, 1, 3)),
                        'fail_task': (rnd.randrange(16) if rnd.random() < 0.05 else None)}
        return case

    def execute(self, case, mode):
        return execute_pool(case, mode)

    def shrink_candidates(self, case):
        for c in _Scn.shrink_candidates(self, case):
            if 'policy' in c and c['policy'] == {'name': 'fair'}:
                continue
            yield c
        pp = case['pool']
        if pp['workers'] != 1:
            c = dict(case)
            c['pool'] = dict(pp, workers=1)
            yield c

    def view(self, case, res):
        return {'scenario': self.ID, 'seed': case['seed'], 'meta': case['meta'], 'params': case['params'], 'pool': case['pool'],
                'outcome': res['outcome'], 'probes': res['probes']}


SCENARIOS.append(_PoolScn())


def tiers(tier):
    return SCENARIOS
