"""C05 — seeded calls are reproducible and never touch numpy's global random stream.

World: the process-global generator np.random.mtrand._rand (shared by the library, the caller and
every earlier call in the process), Python's `random` global, and the registry of all
seed-accepting entry points.  One simulated run = one *history*: a seeded sequence of operations
against that world.  Reference model: a shadow generator advanced only by operations that are
allowed to consume the global stream (the caller's own draws and unseeded library calls).

The verdict follows the statement of C05 and nothing stricter:
  seeded_twice        identical (args, seed) -> identical result
  int_vs_state        seed=s  ==  seed=RandomState(s)
  global_touched      global generator state after a seeded call (returning or raising) == before
  unseeded_function   two unseeded calls from the same global state (other hidden state perturbed) agree
  reseed              np.random.seed(s) before the call makes it reproducible
"""
import random

import numpy as np

from sim import env, registry
from sim.util import short

bct = env.bct
PROP = 'C05'
SEEDS = (0, 1, 7, 12345, 2 ** 31 - 1, 2 ** 32 - 1)


def gstate():
    st = np.random.get_state()
    return (st[0], st[1].copy(), st[2], st[3], st[4])


def same_state(a, b):
    return a[0] == b[0] and np.array_equal(a[1], b[1]) and a[2] == b[2] and a[3] == b[3] and (a[4] == b[4] or not a[3])


def same(a, b):
    """bitwise, NaN-aware, structure-aware equality of results (or outcomes)."""
    if isinstance(a, np.random.RandomState) and isinstance(b, np.random.RandomState):
        sa, sb = a.get_state(), b.get_state()
        return same_state((sa[0], sa[1], sa[2], sa[3], sa[4]), (sb[0], sb[1], sb[2], sb[3], sb[4]))
    if type(a) != type(b) and not (isinstance(a, (int, float, np.number)) and isinstance(b, (int, float, np.number))):
        return False
    if isinstance(a, (tuple, list)):
        return len(a) == len(b) and all(same(x, y) for x, y in zip(a, b))
    if isinstance(a, dict):
        return a.keys() == b.keys() and all(same(a[k], b[k]) for k in a)
    if isinstance(a, np.ndarray):
        if a.shape != b.shape or a.dtype != b.dtype:
            return False
        if a.dtype.kind in 'fc':
            return bool(np.array_equal(a, b, equal_nan=True))
        if a.dtype == object:
            return all(same(x, y) for x, y in zip(a.ravel().tolist(), b.ravel().tolist()))
        return bool(np.array_equal(a, b))
    if isinstance(a, float) or isinstance(a, np.floating):
        return (a != a and b != b) or a == b
    return a == b


def outcome(name, args, kwargs, **extra):
    """value or exception outcome of one call; arrays in args are fresh copies for every call."""
    args = tuple(x.copy() if isinstance(x, np.ndarray) else x for x in args)
    kwargs = {k: (v.copy() if isinstance(v, np.ndarray) else v) for k, v in kwargs.items()}
    try:
        return ('value', registry.call(name, args, kwargs, **extra))
    except (Exception,) as e:
        return ('raised', type(e).__name__, str(e)[:160])


def describe(o):
    if o[0] == 'raised':
        return 'raised %s(%s)' % (o[1], o[2][:60])
    return short(_lite(o[1]), 200)


def _lite(v):
    if isinstance(v, np.ndarray):
        return {'shape': list(v.shape), 'sum': float(np.nansum(v)) if v.dtype.kind in 'fiub' else None, 'head': v.ravel()[:6].tolist()}
    if isinstance(v, (tuple, list)):
        return [_lite(x) for x in v]
    if isinstance(v, np.random.RandomState):
        return 'RandomState(pos=%d)' % v.get_state()[2]
    if isinstance(v, (np.integer, np.floating)):
        return v.item()
    return v


class World(object):
    def __init__(self):
        self.shadow = np.random.RandomState(0)
        self.sync()
        self.fail = None
        self.stats = {}

    def sync(self):
        self.shadow.set_state(np.random.get_state())

    def bump(self, k, n=1):
        self.stats[k] = self.stats.get(k, 0) + n

    def violate(self, vclass, msg):
        if self.fail is None:
            self.fail = (vclass, msg)

    # -- operations -------------------------------------------------------------------------------
    def user_draw(self, kind, n):
        if kind == 'rand':
            a, b = np.random.rand(n), self.shadow.rand(n)
        elif kind == 'randint':
            a, b = np.random.randint(1000, size=n), self.shadow.randint(1000, size=n)
        elif kind == 'normal':  # leaves a cached Gaussian in the legacy state for odd n
            a, b = np.random.normal(size=n), self.shadow.normal(size=n)
        else:
            a, b = np.random.permutation(n), self.shadow.permutation(n)
        if not np.array_equal(a, b):
            self.violate('global_stream_corrupted', 'the caller\'s own %s draw from the global generator differs from the shadow generator: an earlier library call left the global stream in a different state' % kind)

    def user_seed(self, s):
        np.random.seed(s)
        self.sync()

    def user_set_state(self, s, adv):
        r = np.random.RandomState(s)
        r.normal(size=adv)
        np.random.set_state(r.get_state())
        self.sync()

    def _check_untouched(self, before, name, what):
        after = gstate()
        if not same_state(before, after):
            self.violate('global_touched', '%s: numpy\'s global generator changed across %s (pos %d -> %d, has_gauss %d -> %d, key %s)' % (
                name, what, before[2], after[2], before[3], after[3], 'same' if np.array_equal(before[1], after[1]) else 'differs'))
            np.random.set_state(before)

    def seeded_twice(self, name, aseed, s):
        args, kw = registry.REG[name]['make'](random.Random(aseed))
        g0 = gstate()
        r1 = outcome(name, args, kw, seed=s)
        self._check_untouched(g0, name, 'a call with seed=%d' % s)
        random.random()
        r2 = outcome(name, args, kw, seed=s)
        self._check_untouched(g0, name, 'a second call with seed=%d' % s)
        self.bump('raised_outcomes' if r1[0] == 'raised' else 'value_outcomes')
        if not same(r1, r2):
            self.violate('seeded_not_reproducible', '%s called twice with identical arguments and seed=%d: %s vs %s' % (name, s, describe(r1), describe(r2)))
        return r1

    def int_vs_state(self, name, aseed, s):
        args, kw = registry.REG[name]['make'](random.Random(aseed))
        g0 = gstate()
        r1 = outcome(name, args, kw, seed=s)
        r2 = outcome(name, args, kw, seed=np.random.RandomState(s))
        self._check_untouched(g0, name, 'calls with seed=%d / RandomState(%d)' % (s, s))
        self.bump('raised_outcomes' if r1[0] == 'raised' else 'value_outcomes')
        if not same(r1, r2):
            self.violate('int_vs_randomstate', '%s: seed=%d gives %s but seed=RandomState(%d) gives %s' % (name, s, describe(r1), s, describe(r2)))

    def unseeded_function(self, name, aseed, alias):
        args, kw = registry.REG[name]['make'](random.Random(aseed))
        g0 = gstate()
        extra = {'seed': np.random} if alias else {}
        r1 = outcome(name, args, kw, **extra)
        g1 = gstate()
        np.random.set_state(g0)
        random.seed(aseed ^ 0xabcdef)  # perturb hidden state the result must not depend on
        random.random()
        r2 = outcome(name, args, kw, **extra)  # same form of call both times (the np.random alias is not compared with the plain form)
        g2 = gstate()
        self.bump('raised_outcomes' if r1[0] == 'raised' else 'value_outcomes')
        if alias:
            self.bump('alias_seed_np_random_calls')
        if not same(r1, r2):
            self.violate('unseeded_not_function_of_global', '%s called without a seed twice from the same global generator state: %s vs %s' % (name, describe(r1), describe(r2)))
        elif not same_state(g1, g2):
            self.violate('unseeded_not_function_of_global', '%s called without a seed twice from the same global state left the generator in two different states' % name)
        # probe (not a verdict): does the unseeded call consume exactly what a call on a private clone consumes?
        c = np.random.RandomState(0)
        c.set_state(g0)
        np.random.set_state(g0)
        r3 = outcome(name, args, kw, seed=c)
        self._check_untouched(g0, name, 'a call with seed=<RandomState clone>')
        cs = c.get_state()
        if same(r1, r3) and same_state(g1, (cs[0], cs[1], cs[2], cs[3], cs[4])):
            self.bump('unseeded_refines_clone')
        else:
            self.bump('unseeded_differs_from_clone_note')
        np.random.set_state(g1)
        if not same_state(g0, g1):
            self.bump('unseeded_consumed_global')
        self.sync()

    def reseed(self, name, aseed, s):
        args, kw = registry.REG[name]['make'](random.Random(aseed))
        np.random.seed(s)
        r1 = outcome(name, args, kw)
        random.seed(aseed)
        np.random.rand(3)
        np.random.seed(s)
        r2 = outcome(name, args, kw)
        self.bump('raised_outcomes' if r1[0] == 'raised' else 'value_outcomes')
        if not same(r1, r2):
            self.violate('reseed_not_reproducible', '%s: np.random.seed(%d) before two unseeded calls gave %s vs %s' % (name, s, describe(r1), describe(r2)))
        self.sync()

    def buffer_reuse(self, name, aseed, s):
        """the caller keeps ONE array object, refills it in place between calls (same shape, same total weight) and calls the
        routine again: 'identical arguments and seed' are identical *values* - the result must equal that of a call on a fresh
        array with the same contents (nothing may survive inside the library between calls)"""
        args, kw = registry.REG[name]['make'](random.Random(aseed))
        sq = [i for i, a in enumerate(args) if isinstance(a, np.ndarray) and a.ndim >= 2 and a.shape[0] == a.shape[1]]
        if not sq:
            return
        n = args[sq[0]].shape[0]
        perm = list(range(n))
        random.Random(aseed ^ 0x5a5a).shuffle(perm)
        # second data set: the same arrays with the nodes renumbered (same shapes, same multiset of entries)
        second = [a[np.ix_(perm, perm)].copy() if (i in sq and a.shape[0] == n) else (a.copy() if isinstance(a, np.ndarray) else a) for i, a in enumerate(args)]
        bufs = [a.copy() if isinstance(a, np.ndarray) else a for a in args]
        g0 = gstate()

        def run(arglist):
            k2 = {k: (v.copy() if isinstance(v, np.ndarray) else v) for k, v in kw.items()}
            try:
                return ('value', registry.call(name, tuple(arglist), k2, seed=s))
            except Exception as e:
                return ('raised', type(e).__name__, str(e)[:160])
        run(bufs)                                   # first call on the caller's buffers
        for b, a2 in zip(bufs, second):             # refill in place: same objects, same shapes
            if isinstance(b, np.ndarray):
                b[...] = a2
        r_buf = run(bufs)
        r_fresh = run([a.copy() if isinstance(a, np.ndarray) else a for a in second])
        self._check_untouched(g0, name, 'calls on a re-used buffer')
        self.bump('buffer_reuse_pairs')
        if not same(r_buf, r_fresh):
            self.violate('seeded_not_reproducible', '%s with seed=%d: a call on a re-used (refilled in place) array gives %s, a call on a fresh array with '
                         'the same contents gives %s' % (name, s, describe(r_buf), describe(r_fresh)))

    def seeded_raises(self, name, aseed, s):
        bad = registry.REG[name]['bad']
        if bad is None:
            return
        args, kw = bad(random.Random(aseed))
        g0 = gstate()
        r = outcome(name, args, kw, seed=s)
        self._check_untouched(g0, name, 'a seeded call that %s' % ('raised' if r[0] == 'raised' else 'returned'))
        self.bump('own_raise_paths' if r[0] == 'raised' else 'bad_args_accepted')


FUNC_OPS = ('seeded_twice', 'int_vs_state', 'unseeded_function', 'reseed', 'seeded_raises', 'buffer_reuse')


def execute(case, mode):
    w = World()
    registry.POOL_STATE.update(n=0, seed=case['seed'], out_of_order=0, calls=0)
    np.random.seed(case['seed'] & 0xffffffff)
    random.seed(case['seed'])
    w.sync()
    nops = 0
    names = []
    for op in case['ops']:
        kind = op[0]
        nops += 1
        if kind == 'user_draw':
            w.user_draw(op[1], op[2])
        elif kind == 'user_seed':
            w.user_seed(op[1])
        elif kind == 'user_set_state':
            w.user_set_state(op[1], op[2])
        elif kind == 'seeded_twice':
            w.seeded_twice(op[1], op[2], op[3])
        elif kind == 'int_vs_state':
            w.int_vs_state(op[1], op[2], op[3])
        elif kind == 'unseeded_function':
            w.unseeded_function(op[1], op[2], op[3])
        elif kind == 'reseed':
            w.reseed(op[1], op[2], op[3])
        elif kind == 'seeded_raises':
            w.seeded_raises(op[1], op[2], op[3])
        elif kind == 'buffer_reuse':
            w.buffer_reuse(op[1], op[2], op[3])
        if kind in FUNC_OPS:
            names.append(op[1])
        w.bump('op:' + kind)
        if w.fail is not None:
            break
    # closing invariant: the global generator is where the reference model says it is
    if w.fail is None:
        sh = w.shadow.get_state()
        if not same_state(gstate(), (sh[0], sh[1], sh[2], sh[3], sh[4])):
            w.violate('global_stream_corrupted', 'at the end of the history the global generator state differs from the reference model')
    res = {'routine': (case['ops'][nops - 1][1] if w.fail is not None and case['ops'][nops - 1][0] in FUNC_OPS else 'history'),
           'outcome': 'ok', 'ndraws': nops, 'forced': 0, 'fired': {}, 'trace': None, 'probes': dict(w.stats), 'extra': {},
           'digest': repr(case['ops']), 'nontrivial': any(o[0] in FUNC_OPS for o in case['ops']),
           'states': ['%s:%s' % (o[0], o[1]) for o in case['ops'] if o[0] in FUNC_OPS]}
    for nm in set(names):
        res['probes']['fn:' + nm] = names.count(nm)
    if registry.POOL_STATE['calls']:
        res['probes']['pool_calls'] = registry.POOL_STATE['calls']
        res['probes']['pool_tasks_interleaved_out_of_order'] = registry.POOL_STATE['out_of_order']
    if w.fail is not None:
        res['outcome'] = 'violation'
        res['vclass'], res['msg'] = w.fail
        res['msg'] += ' [op %d of %d: %s]' % (nops, len(case['ops']), case['ops'][nops - 1])
    return res


class _Scn(object):
    PROP = PROP
    ID = 'c05.hist'
    TIERS = {'quick': 20000, 'thorough': 300000}
    maxops = 10

    def generate(self, sub):
        rnd = random.Random(sub)
        ops = []
        for _ in range(rnd.randint(2, self.maxops)):
            x = rnd.random()
            if x < 0.18:
                ops.append(['user_draw', rnd.choice(('rand', 'randint', 'normal', 'normal', 'perm')), rnd.choice((1, 2, 3, 5, 8))])
            elif x < 0.24:
                ops.append(['user_seed', rnd.choice(SEEDS)])
            elif x < 0.28:
                ops.append(['user_set_state', rnd.choice(SEEDS), rnd.choice((0, 1, 3))])
            else:
                name = rnd.choice(registry.NAMES)
                aseed = rnd.randrange(2 ** 31)
                kind = rnd.choice(('seeded_twice', 'seeded_twice', 'int_vs_state', 'int_vs_state', 'unseeded_function', 'unseeded_function', 'reseed', 'seeded_raises',
                                   'buffer_reuse'))
                if kind == 'seeded_raises' and registry.REG[name]['bad'] is None:
                    kind = 'seeded_twice'
                if kind == 'unseeded_function':
                    ops.append([kind, name, aseed, rnd.random() < 0.25])
                elif kind == 'seeded_twice' and rnd.random() < 0.1:
                    # seeds numpy cannot take directly (get_rng falls back to python's random.Random(seed)): twice-equal and
                    # global-untouched must hold for them too; RandomState(seed) does not exist for them
                    ops.append([kind, name, aseed, rnd.choice((2 ** 40 + 7, -5, 2 ** 32))])
                else:
                    ops.append([kind, name, aseed, rnd.choice(SEEDS) if rnd.random() < 0.5 else rnd.randrange(2 ** 32)])
        return {'scn': self.ID, 'routine': 'history', 'ops': ops, 'seed': sub, 'policy': {'name': 'history'}, 'trace': None}

    def execute(self, case, mode):
        return execute(case, mode)

    def shrink_candidates(self, case):
        ops = case['ops']
        for x in range(len(ops)):
            c = dict(case)
            c['ops'] = ops[:x] + ops[x + 1:]
            if c['ops']:
                yield c
        for x, op in enumerate(ops):
            if op[0] in ('seeded_twice', 'int_vs_state', 'reseed', 'seeded_raises', 'buffer_reuse') and op[3] != 1:
                c = dict(case)
                c['ops'] = ops[:x] + [op[:3] + [1]] + ops[x + 1:]
                yield c

    def view(self, case, res):
        return {'scenario': self.ID, 'seed': case['seed'], 'history': case['ops'], 'outcome': res['outcome']}


SCENARIOS = [_Scn()]
RULE = ('one run = one history of 2..10 (quick) / 2..30 (thorough) operations against the process-global numpy generator: the caller\'s own '
        'draws (rand / randint / normal with cached Gaussian / permutation), reseeding and set_state, and for a randomly chosen one of the '
        '%d seed-accepting entry points: seeded twice, int seed vs RandomState(seed), unseeded twice from the same global state (also via the '
        'seed=np.random alias), np.random.seed(s) before two unseeded calls, and seeded calls that end in the routine\'s own BCTParamError; a '
        'shadow generator is the reference model of the global stream; non-trivial = the history contains at least one library operation; '
        'distinct = distinct operation sequences' % len(registry.NAMES))


def tiers(tier):
    SCENARIOS[0].maxops = 10 if tier == 'quick' else 30
    return SCENARIOS
