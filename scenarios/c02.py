"""C02 — community detectors return a valid partition and its true modularity."""
from sim.util import dec
from . import modopt

PROP = 'C02'


class _Scn(object):
    PROP = PROP

    def __init__(self, sid, routines, tiers, prop=PROP):
        self.ID, self.routines, self.TIERS = sid, routines, tiers
        self.PROP = prop
        self.nmax = 12

    def generate(self, sub):
        return modopt.gen_case(sub, self.routines, self.ID, nmax=self.nmax)

    def execute(self, case, mode):
        res = modopt.execute(case, mode)
        facts = res.pop('facts')[self.PROP]
        if facts:
            res['outcome'] = 'violation'
            res['vclass'], res['msg'] = facts[0]
            if len(facts) > 1:
                res['msg'] += ' | also: ' + ', '.join(sorted(set(f[0] for f in facts[1:])))
            if res.get('first_neg'):
                res['msg'] += ' | first accepted move with negative exact dQ: move %d at draw %d (dQ=%.6g, claimed gain %.6g)' % res['first_neg']
        elif res['outcome'] == 'crash':
            res['outcome'] = 'ok'
        elif res.get('first_neg') and res['outcome'] == 'ok':
            res['probes']['internal_breach_unconfirmed'] = 1
        return res

    def shrink_candidates(self, case):
        return modopt.shrink_candidates(case)

    def view(self, case, res):
        W = dec(case['W'])
        return {'scenario': self.ID, 'seed': case['seed'], 'routine': case['routine'], 'n': len(W), 'kind': case['meta']['kind'],
                'params': case['params'], 'start': None if case.get('start') is None else dec(case['start']).tolist(), 'feedback': case.get('feedback'),
                'policy': case['policy'], 'draws': res['ndraws'], 'forced': res['forced'], 'accepted_moves': res['probes'].get('accepted_moves'),
                'levels': res['probes'].get('levels'), 'outcome': res['outcome'],
                'first_draws': [[e[0], e[1], e[3]] for e in res['trace'][:3]]}


OPT = modopt.LOUVAIN + modopt.FINETUNE + ('community_louvain', 'community_louvain', 'modularity_probtune_und_sign')
SCENARIOS = [
    _Scn('c02.opt', OPT, {'quick': 80000, 'thorough': 3000000}),
    _Scn('c02.zero', modopt.ZERO, {'quick': 4000, 'thorough': 50000}),
]
RULE = ('one run = one call (plus, for routines that take a start, an optional feed-back call) of a community-detection routine on a generated '
        'planted-partition / random network (n 4..12/16, symmetric / directed / signed as required, a minority with self-weights, gamma in '
        '{.5,.8,1,1.2,1.5}, all five qtypes, four community_louvain objectives, start partitions none/random/planted/perturbed/non-contiguous/'
        'fed-back) with every node visiting order decided by the seeded SimRNG (fair, identity, reverse, rotation, adjacent transposition, '
        'repeated previous order); non-trivial = at least one accepted node move (hook) ; distinct = distinct sha1 of the draw trace; the '
        'c02.zero scenario (modularity_und/_dir/_und_sign, no draws) has no simulation content and is labelled zero_draw')


def tiers(tier):
    for s in SCENARIOS:
        s.nmax = 12 if tier == 'quick' else 16
    return SCENARIOS
