"""C07 — modularity optimisers never return a partition worse than their start."""
from . import modopt
from .c02 import _Scn

PROP = 'C07'
SCENARIOS = [_Scn('c07.opt', modopt.DET_GAIN + ('community_louvain',), {'quick': 80000, 'thorough': 3000000}, prop=PROP)]
RULE = ('one run = one call of a deterministic-gain optimiser from a start partition (singletons, random, planted, perturbed planted, '
        'non-contiguous labels) followed, for the routines that accept a start, by a feed-back call from its own output; every node visiting '
        'order is a SimRNG draw; the verdict compares the reference modularity of the returned partition with that of the start (tolerance 1e-9), '
        'of the fed-back result with the first result, and of consecutive hierarchical levels; the per-move exact dQ from the move hook is '
        'guidance only; non-trivial = at least one accepted move; distinct = distinct sha1 of the draw trace')


def tiers(tier):
    for s in SCENARIOS:
        s.nmax = 12 if tier == 'quick' else 16
    return SCENARIOS
