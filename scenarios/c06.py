"""C06 — signed null models keep each node's positive/negative degree and all weights."""
import random

import numpy as np

from sim import env, gen
from sim.rng import SimBudget
from sim.util import enc, dec
from sim.oracles import graph as G
from . import rewire

bct = env.bct
PROP = 'C06'
DIRECTED = ('randmio_dir_signed', 'null_model_dir_sign')
NULL = ('null_model_und_sign', 'null_model_dir_sign')


def corr(x, y):
    x = np.asarray(x, dtype=float)
    y = np.asarray(y, dtype=float)
    xm, ym = x - x.mean(), y - y.mean()
    den = np.sqrt((xm * xm).sum() * (ym * ym).sum())
    if den == 0:
        return float('nan')
    return float((xm * ym).sum() / den)


def judge(routine, W, p, out):
    v = []
    directed = routine in DIRECTED
    if routine in NULL:
        W0, Rc = out
        Wref = W.astype(np.float64)  # same values, float64 container: strengths are summed in float64 whatever the input type
        np.fill_diagonal(Wref, 0)
    else:
        W0, eff = out
        Wref = W
    W0 = np.asarray(W0)
    if W0.shape != W.shape:
        return [('shape', 'output shape %s' % (W0.shape,))]
    for nm, sel in (('positive', lambda X: X > 0), ('negative', lambda X: X < 0)):
        a, b = sel(Wref), sel(W0)
        if not (np.array_equal(a.sum(0), b.sum(0)) and np.array_equal(a.sum(1), b.sum(1))):
            v.append(('signed_degree', '%s degrees changed: in %s->%s out %s->%s' % (nm, a.sum(0).tolist(), b.sum(0).tolist(), a.sum(1).tolist(), b.sum(1).tolist())))
        ma, mb = np.sort(Wref[a]), np.sort(W0[b])
        if not (ma.shape == mb.shape and np.array_equal(ma, mb)):
            v.append(('signed_multiset', 'multiset of %s weights changed: %s -> %s' % (nm, ma.tolist()[:10], mb.tolist()[:10])))
    if np.any(np.diag(W0) != 0):
        v.append(('diagonal', 'diagonal not empty: %s' % np.diag(W0).tolist()))
    if not directed and not np.array_equal(W0, W0.T):
        v.append(('symmetry', 'undirected input, asymmetric output'))
    if routine in NULL:
        exp = (corr((Wref * (Wref > 0)).sum(0), (W0 * (W0 > 0)).sum(0)), corr((Wref * (Wref > 0)).sum(1), (W0 * (W0 > 0)).sum(1)),
               corr((-Wref * (Wref < 0)).sum(0), (-W0 * (W0 < 0)).sum(0)), corr((-Wref * (Wref < 0)).sum(1), (-W0 * (W0 < 0)).sum(1)))
        try:
            got = tuple(float(x) for x in Rc)
        except Exception:
            got = None
        if got is None or len(got) != 4:
            v.append(('correlations', 'second return value is not a 4-tuple: %r' % (Rc,)))
        else:
            for nm, e, g in zip(('rpos_in', 'rpos_out', 'rneg_in', 'rneg_out'), exp, got):
                if (e != e) != (g != g) or (e == e and abs(e - g) > 1e-9):
                    v.append(('correlations', '%s returned %r, recomputed from input and output strengths %r' % (nm, g, e)))
                    break
    if routine not in NULL and (p.get('itr') == 0 or out[1] == 0) and not np.array_equal(W0, Wref):
        v.append(('zero_rewire_identity', 'zero rewirings requested/reported but output differs'))
    return v


def execute(case, mode):
    routine = case['routine']
    W = dec(case['W'])
    p = case['params']
    rng = rewire.make_rng(case, mode)
    mon = rewire.StepMonitor('randmio_dir_signed' if routine == 'randmio_dir_signed' else 'randmio_und_signed', rng)
    if env.HOOKS is not None:
        env.HOOKS.set_callback(mon)
    Win = W.copy()
    if case.get('layout') == 'F':
        Win = np.asfortranarray(Win)
    exc = None
    out = None
    try:
        f = getattr(bct, routine)
        if routine in NULL:
            out = f(Win, bin_swaps=p['bin_swaps'], wei_freq=p['wei_freq'], seed=rng)
        else:
            out = f(Win, p['itr'], seed=rng)
        outcome = 'ok'
    except SimBudget:
        outcome = 'budget'
    except bct.BCTParamError as e:
        outcome, exc = 'rejected', e
    except rewire.INTERNAL_ERRORS as e:
        outcome, exc = 'crash', e
    finally:
        if env.HOOKS is not None:
            env.HOOKS.set_callback(None)
    facts = []
    if outcome == 'ok':
        try:
            facts = judge(routine, W, p, out)
        except Exception as e:
            facts = [('shape', 'return value could not be judged: %r' % (e,))]
    elif outcome == 'crash':
        facts = [('crash:' + type(exc).__name__, '%s raised %s: %s' % (routine, type(exc).__name__, str(exc)[:200]))]
    res = {'routine': routine, 'outcome': outcome, 'ndraws': rng.ndraws, 'forced': rng._st.forced, 'fired': rng.fired(), 'trace': rng.trace(), 'tail_draws': rng.tail_draws(),
           'digest': rng.digest(), 'states': mon.states, 'swaps': mon.swaps, 'breach': mon.breach, 'probes': {}, 'extra': {}}
    moved = outcome == 'ok' and not np.array_equal(np.asarray(out[0]), W)
    res['nontrivial'] = bool(mon.swaps > 0 or moved)
    pr = res['probes']
    pr['accepted_swaps'] = mon.swaps
    pr['pick_four_calls'] = rng.site_counts().get('pick_four_unique_nodes_quickly', 0)
    pr['weight_deal_permutations'] = sum(1 for e in rng.events if e[0] == 'permutation')
    if routine in NULL and not (W < 0).any():
        pr['all_positive_input'] = 1
    if not np.array_equal(Win, W):
        pr['caller_array_modified'] = 1
    if facts:
        res['outcome'] = 'violation'
        res['vclass'], res['msg'] = facts[0]
        if len(facts) > 1:
            res['msg'] += ' | also: ' + ', '.join(f[0] for f in facts[1:])
        if mon.breach:
            res['msg'] += ' | first internal breach: %s at swap %d, draw %d: %s' % mon.breach
    elif mon.breach:
        pr['internal_breach_unconfirmed'] = 1
    return res


class _Scn(object):
    PROP = PROP

    def __init__(self, sid, routines, tiers):
        self.ID, self.routines, self.TIERS = sid, routines, tiers
        self.nmax = 10

    def generate(self, sub):
        rnd = random.Random(sub)
        routine = rnd.choice(self.routines)
        directed = routine in DIRECTED
        W, meta = gen.signed_graph(rnd, directed, nmax=self.nmax)
        if routine in NULL:
            params = {'bin_swaps': rnd.choice((0, 1, 2, 5)), 'wei_freq': rnd.choice((0, 0.1, 0.3, 0.5, 1, 0.1, 0.3, 1, 0.01, 1e-20))}  # (0, 1] down to periods far longer than the weight list
            if rnd.random() < 0.2:
                np.fill_diagonal(W, rnd.choice((1.0, -2.0, 0.5)))  # documented: the routine clears the diagonal itself
            if rnd.random() < 0.08:
                W = np.abs(W)  # all-positive: the skip-rewiring branch when fully connected
                meta['all_positive'] = True
        else:
            params = {'itr': rnd.choice((0, 1, 2, 5))}
        if meta['wkind'] == 'bigint' and rnd.random() < 0.6:
            W = W.astype(rnd.choice((np.int16, np.int32)))  # large counts in a narrow signed integer container
        elif meta['wkind'] in ('int', 'unit') and rnd.random() < 0.2:
            W = W.astype(rnd.choice((np.int64, np.int32, np.int8)))  # signed integer container
        elif rnd.random() < 0.06:
            W = W.astype(np.float32)
        case = {'scn': self.ID, 'routine': routine, 'W': enc(W), 'params': params, 'seed': sub, 'policy': rewire.pick_policy(rnd),
                'budget': 60000, 'trace': None, 'meta': meta}
        if rnd.random() < 0.08:
            case['layout'] = 'F'
        return case

    def execute(self, case, mode):
        return execute(case, mode)

    def shrink_candidates(self, case):
        W = dec(case['W'])
        directed = case['routine'] in DIRECTED
        p = case['params']

        def mk(**kw):
            c = dict(case)
            c.update(kw)
            return c
        if (case.get('policy') or {}).get('name', 'fair') != 'fair' and case.get('trace') is None:
            yield mk(policy={'name': 'fair'})
        for key in ('itr', 'bin_swaps'):
            if p.get(key, 0) > 1:
                yield mk(params=dict(p, **{key: 1}), trace=None)
            if p.get(key, 0) > 0 and key == 'bin_swaps':
                yield mk(params=dict(p, **{key: 0}), trace=None)
        if p.get('wei_freq') not in (None, 1):
            yield mk(params=dict(p, wei_freq=1), trace=None)
        n = len(W)
        if n > 4:
            for x in range(n):
                idx = [y for y in range(n) if y != x]
                W2 = W[np.ix_(idx, idx)]
                if (W2 > 0).any() and (W2 < 0).any():
                    yield mk(W=enc(W2), trace=None)
        ii, jj = np.nonzero(W if directed else np.triu(W, 1))
        for a, b in list(zip(ii, jj))[:40]:
            W2 = W.copy()
            W2[a, b] = 0
            if not directed:
                W2[b, a] = 0
            if (W2 > 0).any() and (W2 < 0).any():
                yield mk(W=enc(W2), trace=None)
        if len(np.unique(np.abs(W[W != 0]))) > 1:
            yield mk(W=enc(np.sign(W)), trace=None)

    def view(self, case, res):
        W = dec(case['W'])
        return {'scenario': self.ID, 'seed': case['seed'], 'routine': case['routine'], 'n': len(W), 'pos': int((W > 0).sum()), 'neg': int((W < 0).sum()),
                'params': case['params'], 'policy': case['policy'], 'draws': res['ndraws'], 'forced': res['forced'],
                'accepted_swaps': res['swaps'], 'outcome': res['outcome'], 'first_draws': [[e[0], e[1], e[3]] for e in res['trace'][:6]]}


SCENARIOS = [
    _Scn('c06.swap', ('randmio_und_signed', 'randmio_dir_signed'), {'quick': 12000, 'thorough': 800000}),
    _Scn('c06.null', ('null_model_und_sign', 'null_model_dir_sign'), {'quick': 12000, 'thorough': 800000}),
]
RULE = ('one run = one call of a signed null-model routine on a generated signed network (n 4..10, >=1 positive and >=1 negative connection, '
        'symmetric for _und; itr/bin_swaps in {0,1,2,5}, wei_freq in {0,.1,.3,.5,1}) with the four-node picks and the weight-dealing '
        'permutations decided by the seeded SimRNG (fair / collide incl. forced pick_four collisions / edge); non-trivial = output differs '
        'from input or >= 1 accepted swap; distinct = distinct sha1 of the draw trace')


def tiers(tier):
    return SCENARIOS
