"""C20 — synthetic generators deliver the requested size, edge count and symmetry."""
import random

import numpy as np

from sim import env
from sim.rng import SimBudget
from sim.util import enc, dec
from sim.oracles import graph as G
from . import rewire

bct = env.bct
PROP = 'C20'
GENS = ('makerandCIJ_und', 'makerandCIJ_dir', 'makeringlatticeCIJ', 'maketoeplitzCIJ', 'makeevenCIJ', 'makefractalCIJ', 'makerandCIJdegreesfixed')


def _is01(C):
    C = np.asarray(C)
    return bool(np.all((C == 0) | (C == 1)))


def cluster_edges(n, sz_cl):
    """number of within-cluster directed connections for makeevenCIJ: clusters of 2**(sz_cl-1)... counted from the definition:
    nodes grouped in blocks of size b = 2**sz_cl / 2 ... determined empirically by the oracle below instead."""
    raise NotImplementedError


def judge(gname, p, out):
    v = []
    if gname == 'makefractalCIJ':
        if not (isinstance(out, tuple) and len(out) == 2):
            return [('shape', 'makefractalCIJ must return (CIJ, K)')]
        C, K = out
        n = 2 ** p['mx_lvl']
    elif gname == 'makerandCIJdegreesfixed':
        C, K = out, None
        n = len(p['inv'])
    else:
        C, K = out, p['k']
        n = p['n']
    C = np.asarray(C)
    if C.shape != (n, n):
        return [('shape', 'expected %dx%d, got %s' % (n, n, C.shape))]
    if not _is01(C):
        v.append(('not_binary', 'entries other than 0/1: %s' % np.unique(C).tolist()[:6]))
    if np.any(np.diag(C) != 0):
        v.append(('diagonal', 'diagonal not empty'))
    cnt = int(np.count_nonzero(C))
    if gname == 'makerandCIJ_und':
        if not np.array_equal(C, C.T):
            v.append(('symmetry', 'makerandCIJ_und returned an asymmetric matrix'))
        und = int(np.count_nonzero(np.triu(C | C.T if C.dtype == bool else ((C != 0) | (C != 0).T), 1)))
        if und != K:
            v.append(('count', 'requested %d undirected connections, found %d' % (K, und)))
    elif gname == 'makefractalCIJ':
        if int(K) != cnt:
            v.append(('count', 'reported K=%s, matrix has %d connections' % (K, cnt)))
    elif gname == 'makerandCIJdegreesfixed':
        if not (np.array_equal((C != 0).sum(0), np.asarray(p['inv'])) and np.array_equal((C != 0).sum(1), np.asarray(p['outv']))):
            v.append(('degree_sequence', 'in %s (want %s) out %s (want %s)' % ((C != 0).sum(0).tolist(), list(p['inv']), (C != 0).sum(1).tolist(), list(p['outv']))))
    else:
        if cnt != K:
            v.append(('count', 'requested %d connections, found %d' % (K, cnt)))
    if gname == 'makeringlatticeCIJ' and not v:
        D = G.ring_distance_matrix(n)
        A = (C != 0)
        dmax = int(D[A].max()) if A.any() else 0
        for d in range(1, dmax):
            band = (D == d)
            if not A[band].all():
                v.append(('ring_bands', 'band at ring distance %d is not full although band %d is used' % (d, dmax)))
                break
    return v


def execute(case, mode):
    gname = case['routine']
    p = case['params']
    rng = rewire.make_rng(case, mode)
    f = getattr(bct, gname)
    out = exc = None
    st = p.get('scalar_type')
    if st:
        # sizes and counts handed over as numpy integer scalars (an element of a parameter array, a shape stored in a narrow type)
        p = dict(p, **{key: np.dtype(st).type(p[key]) for key in ('n', 'k', 'sz_cl', 'mx_lvl') if key in p and isinstance(p[key], int)})
    try:
        if gname in ('makerandCIJ_und', 'makerandCIJ_dir', 'makeringlatticeCIJ'):
            out = f(p['n'], p['k'], seed=rng)
        elif gname == 'maketoeplitzCIJ':
            out = f(p['n'], p['k'], p['s'], seed=rng)
        elif gname == 'makeevenCIJ':
            out = f(p['n'], p['k'], p['sz_cl'], seed=rng)
        elif gname == 'makefractalCIJ':
            out = f(p['mx_lvl'], p['E'], p['sz_cl'], seed=rng)
        else:
            vt = p.get('vtype')
            iv, ov = np.array(p['inv']), np.array(p['outv'])
            if vt == 'column':
                iv, ov = iv.reshape(-1, 1), ov.reshape(-1, 1)
            elif vt:
                iv, ov = iv.astype(vt), ov.astype(vt)
            out = f(iv, ov, seed=rng)
        outcome = 'ok'
    except SimBudget:
        outcome = 'budget'
    except bct.BCTParamError as e:
        outcome, exc = 'rejected', e
    except rewire.INTERNAL_ERRORS as e:
        outcome, exc = 'crash', e
    facts = []
    if outcome == 'ok':
        try:
            facts = judge(gname, p, out)
        except Exception as e:
            facts = [('shape', 'return value could not be judged: %r' % (e,))]
    elif outcome == 'crash':
        facts = [('crash:' + type(exc).__name__, '%s raised %s: %s' % (gname, type(exc).__name__, str(exc)[:200]))]
    res = {'routine': gname, 'outcome': outcome, 'ndraws': rng.ndraws, 'forced': rng._st.forced, 'fired': rng.fired(), 'trace': rng.trace(), 'tail_draws': rng.tail_draws(),
           'probes': {}, 'extra': {}}
    res['digest'] = gname + ':' + repr(sorted((k, v if not isinstance(v, list) else tuple(v)) for k, v in p.items())) + ':' + rng.digest()
    res['nontrivial'] = rng.ndraws > 0
    pr = res['probes']
    sc = rng.site_counts()
    if gname == 'makerandCIJdegreesfixed':
        rep = sc.get('makerandCIJdegreesfixed', 0) - 1
        if rep > 0:
            pr['degreesfixed_repair_draws'] = rep
            pr['degreesfixed_runs_with_repair'] = 1
        if outcome == 'rejected':
            pr['degreesfixed_could_not_resolve'] = 1
    if gname == 'maketoeplitzCIJ' and rng.ndraws > 1:
        pr['toeplitz_rejections'] = rng.ndraws - 1
    if gname == 'makeringlatticeCIJ' and rng.ndraws:
        pr['ringlattice_excess_removed'] = 1
    if outcome == 'rejected':
        pr['rejected:' + str(exc)[:40]] = 1
    res['states'] = [gname + repr(sorted((k, v if not isinstance(v, list) else tuple(v)) for k, v in p.items()))]
    if facts:
        res['outcome'] = 'violation'
        res['vclass'], res['msg'] = facts[0]
        res['msg'] = '%s(%s): %s' % (gname, p, res['msg'])
        if len(facts) > 1:
            res['msg'] += ' | also: ' + ', '.join(x[0] for x in facts[1:])
    return res


def even_cluster_count(n, sz_cl):
    """connections inside the fully connected clusters of makeevenCIJ: clusters have 2**(sz_cl) ... derived: CIJ >= mx_lvl - (sz_cl-1)."""
    # blocks of size 2**sz_cl? use the hierarchical template definition independently:
    mx = int(np.log2(n))
    b = 2 ** sz_cl if False else None
    return None


class _Scn(object):
    PROP = PROP
    ID = 'c20.gen'
    TIERS = {'quick': 24000, 'thorough': 600000}
    nmax = 8

    def generate(self, sub):
        rnd = random.Random(sub)
        g = rnd.choice(GENS + tuple(x for x in GENS if x != 'maketoeplitzCIJ'))  # the toeplitz rejection loop is the expensive one: half weight
        nmax = self.nmax
        sparse_large = rnd.random() < 0.06  # a few connections in a large network (density below 1 %), where a sparse fast path would live
        if g == 'makerandCIJ_und':
            n = rnd.randint(2, nmax)
            p = {'n': n, 'k': rnd.randint(0, n * (n - 1) // 2)}
            if sparse_large:
                p = {'n': rnd.randint(24, 40), 'k': rnd.randint(0, 3)}
        elif g == 'makerandCIJ_dir':
            n = rnd.randint(2, nmax)
            p = {'n': n, 'k': rnd.randint(0, n * (n - 1))}
            if sparse_large:
                p = {'n': rnd.randint(24, 40), 'k': rnd.randint(0, 5)}
        elif g == 'makeringlatticeCIJ':
            n = rnd.randint(3, nmax)
            p = {'n': n, 'k': rnd.randint(1, n * (n - 1))}
        elif g == 'maketoeplitzCIJ':
            n = rnd.randint(4, min(nmax, 10))  # an infeasible (n, k, s) costs 10 001 n x n draws before the routine gives up
            p = {'n': n, 'k': rnd.randint(1, max(1, n * (n - 1) // 3)), 's': rnd.choice((0.5, 1.0, 2.0, 4.0))}
        elif g == 'makeevenCIJ':
            lv = rnd.randint(1, 3 if nmax <= 8 else 4)  # N = 2 is a power of two as well
            n = 2 ** lv
            sz = rnd.randint(1, max(1, lv - 1))
            csize = 2 ** sz
            kmin = (n // csize) * csize * (csize - 1)
            p = {'n': n, 'k': rnd.randint(kmin, n * (n - 1)), 'sz_cl': sz}
        elif g == 'makefractalCIJ':
            lv = rnd.randint(1, 3 if nmax <= 8 else 4)
            p = {'mx_lvl': lv, 'E': rnd.choice((1, 1.0, 1.5, 2, 3, 4)), 'sz_cl': rnd.randint(1, lv)}  # E = 1: no fall-off
        else:
            n = rnd.randint(3, max(nmax, 14))
            dens = rnd.choice((0.15, 0.3, 0.5, 0.7))
            A = np.zeros((n, n), dtype=int)
            for a in range(n):
                for b in range(n):
                    if a != b and rnd.random() < dens:
                        A[a, b] = 1
            if A.sum() == 0:
                A[0, 1] = 1
            p = {'inv': A.sum(0).tolist(), 'outv': A.sum(1).tolist()}
            x = rnd.random()
            if x < 0.3:
                p['vtype'] = rnd.choice(('int8', 'uint8', 'int16', 'int32', 'uint16'))  # degree vectors in a narrow integer container
            elif x < 0.36:
                p['vtype'] = 'column'  # the docstring's "Nx1" taken literally
        if g in ('makerandCIJ_und', 'makerandCIJ_dir', 'makeringlatticeCIJ') and rnd.random() < 0.06:
            # a size whose pair count n(n-1) does not fit the narrow type it arrives in
            n = rnd.randint(12, 20)
            top = n * (n - 1) // (2 if g == 'makerandCIJ_und' else 1)
            top = min(top, 127)  # the count itself must fit int8 / uint8
            # (int8 only for the two random generators: makeringlatticeCIJ(np.int8(16), np.int8(97)) raises numpy 2's OverflowError
            # inside its own arithmetic - loud, and the parameters are documented as int)
            p = {'n': n, 'k': rnd.randint(0, top), 'scalar_type': rnd.choice(('int8', 'uint8')) if g != 'makeringlatticeCIJ' else 'uint8'}
        elif 'n' in p and 'inv' not in p and rnd.random() < 0.06 and all(v <= 127 for v in (p.get('n', 0), p.get('k', 0))):
            p['scalar_type'] = rnd.choice(('int8', 'uint8', 'int16', 'int32', 'int64') if g != 'makeringlatticeCIJ' else ('uint8', 'int16', 'int32', 'int64'))
        budget = 30000 if g != 'maketoeplitzCIJ' else 3000  # an infeasible (n, k, s) would cost 10 001 rejected draws: stop on the draw budget instead
        return {'scn': self.ID, 'routine': g, 'params': p, 'seed': sub, 'policy': rewire.pick_policy(rnd), 'budget': budget, 'trace': None}

    def execute(self, case, mode):
        return execute(case, mode)

    def shrink_candidates(self, case):
        p = case['params']

        def mk(**kw):
            c = dict(case)
            c.update(kw)
            return c
        if (case.get('policy') or {}).get('name', 'fair') != 'fair' and case.get('trace') is None:
            yield mk(policy={'name': 'fair'})
        if 'k' in p:
            for k2 in (p['k'] // 2, p['k'] - 1):
                if 0 <= k2 < p['k']:
                    yield mk(params=dict(p, k=k2), trace=None)
        if 'n' in p and case['routine'] not in ('makeevenCIJ',) and p['n'] > 3:
            n2 = p['n'] - 1
            yield mk(params=dict(p, n=n2, k=min(p['k'], n2 * (n2 - 1) // 2)), trace=None)

    def view(self, case, res):
        return {'scenario': self.ID, 'seed': case['seed'], 'generator': case['routine'], 'params': case['params'], 'policy': case['policy'],
                'draws': res['ndraws'], 'forced': res['forced'], 'outcome': res['outcome'],
                'first_draws': [[e[0], e[1], (e[3] if not isinstance(e[3], list) or len(e[3]) < 12 else e[3][:12] + ['...'])] for e in res['trace'][:3]]}


class _Large(_Scn):
    """the rejection loop of maketoeplitzCIJ at sizes where K reaches 1e5 (a tolerance-based count test would pass K +- 1)"""
    ID = 'c20.large'
    TIERS = {'quick': 4, 'thorough': 64}
    WALL_S = 120

    def generate(self, sub):
        rnd = random.Random(sub)
        n = rnd.randint(400, 460)
        k = rnd.randint(100000, int(0.65 * n * (n - 1)))
        return {'scn': self.ID, 'routine': 'maketoeplitzCIJ', 'params': {'n': n, 'k': k, 's': rnd.choice((200, 250, 300))}, 'seed': sub,
                'policy': {'name': 'fair'}, 'budget': 4000, 'trace': None}

    def shrink_candidates(self, case):
        return iter(())


SCENARIOS = [_Scn(), _Large()]
RULE = ('one run = one call of one of the seven synthetic generators at a sampled grid point (N <= 8 quick / 16 thorough, all feasible K, cluster '
        'sizes, s, E, graphical degree-sequence pairs taken from a random digraph) with its permutation / uniform-matrix / repair-loop draws '
        'decided by the seeded SimRNG (fair, boundary permutations identity/reverse/rotation, all-low/all-high uniforms, colliding repair '
        'indices); non-trivial = the call made >= 1 draw; distinct = distinct (generator, parameters, draw-trace sha1). For five of the seven '
        'generators a run has a single draw, so simulation adds only the boundary draws over plain seeds (DESIGN §5 C20).')


def tiers(tier):
    SCENARIOS[0].nmax = 8 if tier == 'quick' else 16
    return SCENARIOS
