"""C01 — degree-preserving rewiring keeps every node's degree and the weight multiset."""
import numpy as np

from sim.util import dec
from sim.oracles import graph as G
from . import rewire

PROP = 'C01'


class _Scn(object):
    PROP = PROP

    def __init__(self, sid, routines, tiers, nmax_quick=12, nmax_thorough=16):
        self.ID = sid
        self.routines = routines
        self.TIERS = tiers
        self.nmax = nmax_quick

    def generate(self, sub):
        return rewire.gen_case(sub, self.routines, self.ID, nmax=self.nmax)

    def execute(self, case, mode):
        res = rewire.execute(case, mode)
        facts = res['facts'][PROP]
        res.pop('out', None)
        if facts:
            res['outcome'] = 'violation'
            res['vclass'], res['msg'] = facts[0]
            if res.get('breach'):
                res['msg'] += ' | first internal breach: %s at swap %d, draw %d: %s' % res['breach']
            if len(facts) > 1:
                res['msg'] += ' | also: ' + ', '.join(f[0] for f in facts[1:])
        elif res['outcome'] == 'crash':
            res['outcome'] = 'ok'
        if res.get('breach') and res['outcome'] != 'violation':
            res['probes']['internal_breach_unconfirmed'] = 1
        return res

    def shrink_candidates(self, case):
        directed = case['routine'] in rewire.DIR
        return rewire.shrink_candidates(case, keep=lambda W: len(W) >= 4 and G.two_disjoint_edges(W, directed))

    def view(self, case, res):
        W = dec(case['W'])
        return {'scenario': self.ID, 'seed': case['seed'], 'routine': case['routine'], 'n': len(W), 'edges': int((W != 0).sum()),
                'family': case['meta'].get('family'), 'weights': case['meta'].get('wkind'), 'dtype': str(W.dtype),
                'params': {k: (v if not isinstance(v, dict) else 'array') for k, v in case['params'].items()},
                'policy': case['policy'], 'draws': res['ndraws'], 'forced': res['forced'], 'accepted_swaps': res['swaps'],
                'outcome': res['outcome'], 'first_draws': [[e[0], e[1], e[3]] for e in res['trace'][:8]]}


SCENARIOS = [
    _Scn('c01.rand', ('randmio_und', 'randmio_dir', 'randmio_und_connected', 'randmio_dir_connected'), {'quick': 16000, 'thorough': 600000}),
    _Scn('c01.latt', ('latmio_und', 'latmio_dir', 'latmio_und_connected', 'latmio_dir_connected'), {'quick': 12000, 'thorough': 500000}),
    _Scn('c01.part', ('randomize_graph_partial_und',), {'quick': 6000, 'thorough': 200000}),
    _Scn('c01.rbu', ('randomizer_bin_und',), {'quick': 6000, 'thorough': 200000}),
]

RULE = ('one run = one call of one rewiring/latticisation routine on a generated network (n 4..12/16, ten graph families, binary/int/float '
        'weights, itr/maxswap/alpha/D/mask varied) with every random draw decided by the seeded SimRNG under a per-run policy '
        '(fair / collide / edge / mix); non-trivial = at least one accepted swap; distinct = distinct sha1 of the full draw trace')


def tiers(tier):
    for s in SCENARIOS:
        s.nmax = 12 if tier == 'quick' else 16
    return SCENARIOS
