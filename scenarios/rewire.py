"""Shared engine for the twelve rewiring routines (C01, C06, C11; also used by C13's abort runs).

One simulated run = one call of one routine with a SimRNG as `seed`.  The hook callback checks
step invariants while the run proceeds (guidance + diagnosis); the verdict is taken on the returned
value against the caller's pristine input, property by property.
"""
import random

import numpy as np

from sim import env
from sim.rng import SimRNG, SimBudget, SimAbort
from sim.util import enc, dec, arr_digest
from sim.oracles import graph as G
from sim import gen

bct = env.bct
BCTParamError = bct.BCTParamError

UND = ('randmio_und', 'randmio_und_connected', 'latmio_und', 'latmio_und_connected', 'randomize_graph_partial_und', 'randomizer_bin_und')
DIR = ('randmio_dir', 'randmio_dir_connected', 'latmio_dir', 'latmio_dir_connected')
LAT = ('latmio_und', 'latmio_und_connected', 'latmio_dir', 'latmio_dir_connected')
CONNECTED = ('randmio_und_connected', 'randmio_dir_connected', 'latmio_und_connected', 'latmio_dir_connected')
SIGNED = ('randmio_und_signed', 'randmio_dir_signed')
INTERNAL_ERRORS = (IndexError, TypeError, ValueError, ZeroDivisionError, RecursionError, KeyError, AttributeError, OverflowError, NameError, FloatingPointError,
                   np.exceptions.DTypePromotionError if hasattr(np, 'exceptions') else TypeError)


def pick_policy(rnd, starve=(60, 150, 400)):
    x = rnd.random()
    if x < 0.40:
        return {'name': 'fair'}
    name = 'collide' if x < 0.60 else 'edge' if x < 0.75 else 'mix'
    # bursts are bounded so that legal rejection loops stay live; a minority of runs gets very long bursts ("starvation":
    # hundreds of consecutive colliding draws, which fair seeds only produce on hub-dominated graphs of 40+ nodes; the rewiring
    # scenarios also get bursts of 3000, i.e. more than 1000 consecutive non-disjoint edge pairs - a star with 300+ leaves)
    burst = rnd.choice((2, 6, 12, 20)) if rnd.random() < 0.8 else rnd.choice(starve)
    return {'name': name, 'rate': rnd.choice((0.05, 0.15, 0.3)), 'burst': burst, 'site_frac': rnd.choice((0.5, 0.8, 1.0))}


def make_rng(case, mode, abort_at=None):
    budget = case.get('budget', 200000)
    if mode == 'gen' or case.get('trace') is None:
        return SimRNG(case['seed'], policy=case.get('policy'), budget=budget, abort_at=abort_at)
    return SimRNG(case['seed'], replay=case['trace'], strict=(mode == 'strict'), budget=budget, abort_at=abort_at)


class StepMonitor(object):
    """Hook callback. Checks invariants after every accepted swap; records the first breach."""

    def __init__(self, routine, rng, B=None):
        self.routine = routine
        self.rng = rng
        self.B = B
        self.swaps = 0
        self.start = None
        self.breach = None  # (kind, swap_no, draw_no, msg)
        self.states = set()
        self.D = None
        self.prev_cost = None
        self.prevR = None
        self.mask_created = None
        self.directed = routine in DIR or routine == 'randmio_dir_signed'
        self.signed = routine in SIGNED

    def _set_breach(self, kind, msg):
        if self.breach is None:
            self.breach = (kind, self.swaps, self.rng.ndraws, msg)

    def __call__(self, event, s):
        if s.get('fn') != self.routine:
            return
        R = s['R']
        if self.routine == 'randomizer_bin_und':
            R = np.array(R, dtype=float)
            np.fill_diagonal(R, 0)  # the routine parks inf on the diagonal while it works
        if event == 'start':
            self.start = {'ind': G.in_deg(R), 'outd': G.out_deg(R), 'ms': G.weights_multiset(R), 'diag': np.diag(R).copy()}
            if self.signed:
                self.start['pin'] = (R > 0).sum(0)
                self.start['pout'] = (R > 0).sum(1)
                self.start['nin'] = (R < 0).sum(0)
                self.start['nout'] = (R < 0).sum(1)
            if s.get('i') is not None:
                self.rng.publish_edge_list(s['i'], s['j'])
            if s.get('D') is not None:
                self.D = np.array(s['D'], dtype=float)
                self.prev_cost = float(np.sum(self.D * np.asarray(R, dtype=float)))
            if self.B is not None:
                self.prevR = np.array(R, copy=True)
            self.conn0 = None
            if self.routine in CONNECTED:
                self.conn0 = G.strongly_connected(R) if self.directed else G.connected_und(R)
            return
        if event != 'swap' or self.start is None:
            return
        self.swaps += 1
        if len(self.states) < 64:
            self.states.add(arr_digest(R))
        st = self.start
        if self.routine == 'randomizer_bin_und':
            if not np.array_equal(G.in_deg(R), st['ind']):
                self._set_breach('step_degree', 'degree sequence of the working matrix changed at swap %d' % self.swaps)
            elif not np.array_equal(R, R.T):
                self._set_breach('step_symmetry', 'working matrix asymmetric after swap %d' % self.swaps)
            return
        if self.signed:
            if not (np.array_equal((R > 0).sum(0), st['pin']) and np.array_equal((R > 0).sum(1), st['pout'])
                    and np.array_equal((R < 0).sum(0), st['nin']) and np.array_equal((R < 0).sum(1), st['nout'])):
                self._set_breach('step_signed_degree', 'signed degree sequence changed at swap %d' % self.swaps)
            elif not np.array_equal(G.weights_multiset(R), st['ms']):
                self._set_breach('step_multiset', 'weight multiset changed at swap %d' % self.swaps)
            return
        if not (np.array_equal(G.in_deg(R), st['ind']) and np.array_equal(G.out_deg(R), st['outd'])):
            self._set_breach('step_degree', 'degree sequence changed at swap %d (a,b,c,d=%s)' % (self.swaps, (s.get('a'), s.get('b'), s.get('c'), s.get('d'))))
        elif not np.array_equal(G.weights_multiset(R), st['ms']):
            self._set_breach('step_multiset', 'weight multiset changed at swap %d' % self.swaps)
        elif not self.directed and not np.allclose(R, R.T):
            self._set_breach('step_symmetry', 'matrix asymmetric after swap %d' % self.swaps)
        else:
            i, j = s.get('i'), s.get('j')
            if i is not None:
                sup = (R != 0)
                if self.directed:
                    ok = len(i) == int(sup.sum()) and bool(sup[i, j].all()) and len(set(zip(i.tolist(), j.tolist()))) == len(i)
                else:
                    lo = np.minimum(i, j)
                    hi = np.maximum(i, j)
                    ok = len(i) * 2 == int(sup.sum()) and bool(sup[i, j].all()) and len(set(zip(lo.tolist(), hi.tolist()))) == len(i)
                if not ok:
                    self._set_breach('step_edgelist', 'edge list no longer names the edges of R after swap %d (e1=%s e2=%s)' % (self.swaps, s.get('e1'), s.get('e2')))
        if self.conn0:
            c = G.strongly_connected(R) if self.directed else G.connected_und(R)
            if not c:
                self._set_breach('step_disconnected', 'network disconnected after swap %d' % self.swaps)
        if self.D is not None:
            cost = float(np.sum(self.D * np.asarray(R, dtype=float)))
            if cost > self.prev_cost + 1e-9 * max(1.0, abs(self.prev_cost)):
                self._set_breach('step_cost', 'lattice cost rose %.12g -> %.12g at swap %d' % (self.prev_cost, cost, self.swaps))
            self.prev_cost = cost
        if self.B is not None:
            # statement-level, observed while the run proceeds: a cell that was empty before this swap and holds a connection
            # after it was *created* by the swap; it must not be a masked cell (independent of the routine's own a,b,c,d)
            if self.prevR is not None:
                created = (R != 0) & (self.prevR == 0) & (self.B != 0)
                if created.any() and self.mask_created is None:
                    self.mask_created = (self.swaps, np.argwhere(created).tolist()[:4])
                    self._set_breach('step_mask', 'swap %d created a connection in masked cell(s) %s' % (self.swaps, self.mask_created[1]))
            self.prevR = np.array(R, copy=True)


def call_routine(routine, W, p, rng):
    f = getattr(bct, routine)
    if routine in LAT:
        return f(W, p['itr'], D=p.get('D'), seed=rng)
    if routine == 'randomize_graph_partial_und':
        return f(W, p['B'], p['maxswap'], seed=rng)
    if routine == 'randomizer_bin_und':
        return f(W, p['alpha'], seed=rng)
    return f(W, p['itr'], seed=rng)


def judge_c01(routine, W, p, out, mon):
    """C01 facts on the returned value against the caller's pristine input. Returns list of (vclass, msg)."""
    v = []
    directed = routine in DIR
    n = len(W)
    eff = None
    Rrp = ind_rp = None
    if routine in LAT:
        if not (isinstance(out, tuple) and len(out) == 4):
            return [('shape', 'latticiser did not return 4 values')]
        R, Rrp, ind_rp, eff = out
    elif routine in ('randomize_graph_partial_und', 'randomizer_bin_und'):
        R = out
    else:
        R, eff = out
    R = np.asarray(R)
    if R.shape != W.shape:
        return [('shape', 'output shape %s != input shape %s' % (R.shape, W.shape))]
    if routine in LAT:
        ind = np.asarray(ind_rp)
        if ind.shape != (n,) or not np.array_equal(np.sort(ind), np.arange(n)):
            v.append(('lattice_order', 'returned node ordering is not a permutation of 0..n-1: %s' % ind.tolist()))
        else:
            if not np.array_equal(np.asarray(Rrp), R[np.ix_(ind, ind)]):
                v.append(('lattice_reindex', 'matrix in latticisation order is not the original-order result re-indexed by the returned ordering'))
    if not (np.array_equal(G.in_deg(R), G.in_deg(W)) and np.array_equal(G.out_deg(R), G.out_deg(W))):
        v.append(('degree', 'degrees differ from the input under the caller\'s numbering: in %s->%s out %s->%s' % (
            G.in_deg(W).tolist(), G.in_deg(R).tolist(), G.out_deg(W).tolist(), G.out_deg(R).tolist())))
    if not G.same_multiset(R, W):
        v.append(('multiset', 'weight multiset changed: %s -> %s' % (G.weights_multiset(W).tolist()[:12], G.weights_multiset(R).tolist()[:12])))
    if np.any(np.diag(R) != np.diag(W)):
        v.append(('diagonal', 'diagonal changed: %s' % np.diag(R).tolist()))
    if not directed and not (np.array_equal(R, R.T) if np.array_equal(W, W.T) else np.allclose(R, R.T)):
        v.append(('symmetry', 'undirected routine returned an asymmetric matrix'))
    if directed and not np.allclose(R.astype(np.float64).sum(axis=1), W.astype(np.float64).sum(axis=1), rtol=1e-9, atol=1e-9):  # summed in float64 whatever the container
        v.append(('out_strength', 'out-strength changed: %s -> %s' % (W.sum(1).tolist(), R.sum(1).tolist())))
    zero = (p.get('itr') == 0 or p.get('maxswap') == 0 or p.get('alpha') == 0 or (eff is not None and eff == 0))
    if zero and not np.array_equal(R, W):
        v.append(('zero_rewire_identity', 'zero rewirings requested/reported but output differs from input'))
    if eff is not None and mon is not None and mon.start is not None and mon.swaps != eff and env.HOOKS is not None:
        # informational only (reported count vs observed accepted swaps)
        pass
    return v


def judge_c11(routine, W, p, out, mon, hookD):
    v = []
    directed = routine in DIR
    if routine in CONNECTED:
        R = np.asarray(out[0])
        conn_in = G.strongly_connected(W) if directed else G.connected_und(W)
        if conn_in:
            conn_out = G.strongly_connected(R) if directed else G.connected_und(R)
            if not conn_out:
                v.append(('disconnected', 'connected input, disconnected output'))
    if routine in LAT:
        R, Rrp, ind, eff = out
        ind = np.asarray(ind)
        n = len(W)
        if ind.shape == (n,) and np.array_equal(np.sort(ind), np.arange(n)):
            D = p.get('D')
            if D is None:
                D = hookD if hookD is not None else G.ring_distance_matrix(n)
            D = np.asarray(D, dtype=float)  # the cost is a real number whatever the containers are
            before = float(np.sum(D * W[np.ix_(ind, ind)].astype(float)))
            after = float(np.sum(D * np.asarray(Rrp, dtype=float)))
            if after > before + 1e-9 * max(1.0, abs(before)):
                v.append(('cost_increase', 'lattice cost sum(D*R) rose from %.12g to %.12g' % (before, after)))
    if routine == 'randomize_graph_partial_und':
        R = np.asarray(out)
        B = p['B']
        bad = (B != 0) & (R != 0) & (W == 0)
        if bad.any():
            v.append(('mask', 'connection created in masked cell(s) %s' % np.argwhere(bad).tolist()[:4]))
        else:
            # weights are moved, never computed: a masked cell that holds a different non-zero weight than in the input
            # received a new connection after its own was rewired away
            moved = (B != 0) & (R != 0) & (W != 0) & (R != W)
            if moved.any():
                v.append(('mask', 'masked cell(s) %s hold a connection that was placed there by a rewiring (weight differs from the input)' % np.argwhere(moved).tolist()[:4]))
            elif mon is not None and mon.mask_created is not None:
                v.append(('mask', 'swap %d created a connection in masked cell(s) %s (observed through the swap hook)' % mon.mask_created))
    return v


def execute(case, mode, abort_at=None):
    routine = case['routine']
    W = dec(case['W'])
    p = dict(case['params'])
    for key in ('D', 'B'):
        if p.get(key) is not None:
            p[key] = dec(p[key])
    rng = make_rng(case, mode, abort_at=abort_at)
    mon = StepMonitor(routine, rng, B=p.get('B'))
    if env.HOOKS is not None:
        env.HOOKS.set_callback(mon)
    Win = W.copy()
    lay = case.get('layout')
    if lay == 'F':
        Win = np.asfortranarray(Win)  # column-major, as loaded from MATLAB files
    elif lay == 'strided':
        big = np.zeros((2 * len(W), 2 * len(W)), dtype=W.dtype)
        big[::2, ::2] = W
        Win = big[::2, ::2]  # non-contiguous view
    pin = {k: (v.copy() if isinstance(v, np.ndarray) else v) for k, v in p.items()}
    if case.get('npscalars'):
        for key in ('itr', 'maxswap'):
            if isinstance(pin.get(key), int):
                pin[key] = np.int64(pin[key])
    res = {'routine': routine, 'facts': {}, 'probes': {}, 'extra': {}}
    out = None
    exc = None
    try:
        out = call_routine(routine, Win, pin, rng)
        outcome = 'ok'
    except SimBudget:
        outcome = 'budget'
    except SimAbort:
        outcome = 'aborted'
    except BCTParamError as e:
        outcome = 'rejected'
        exc = e
    except INTERNAL_ERRORS as e:
        outcome = 'crash'
        exc = e
    finally:
        if env.HOOKS is not None:
            env.HOOKS.set_callback(None)
    facts = {'C01': [], 'C11': [], 'C13': []}
    # C13 fact: the caller's arrays are as they were, whether the call returned or raised
    if not (np.array_equal(Win, W) and Win.dtype == W.dtype):
        facts['C13'].append(('caller_array_modified', '%s modified its matrix argument (outcome %s)' % (routine, outcome)))
    for key in ('D', 'B'):
        if p.get(key) is not None and not np.array_equal(pin[key], p[key]):
            facts['C13'].append(('caller_array_modified', '%s modified its %s argument' % (routine, key)))
    expect_reject = case.get('expect_reject')
    if outcome == 'ok':
        if expect_reject:
            facts['C11'].append(('precondition_not_rejected', '%s accepted %s input' % (routine, expect_reject)))
        else:
            try:
                if routine not in SIGNED:
                    facts['C01'] = judge_c01(routine, W, p, out, mon)
                    facts['C11'] = judge_c11(routine, W, p, out, mon, mon.D)
            except Exception as e:  # malformed return value
                facts['C01'].append(('shape', 'return value could not be judged: %r' % (e,)))
    elif outcome == 'crash' and not expect_reject:
        cls = 'crash:' + type(exc).__name__
        msg = '%s raised %s: %s' % (routine, type(exc).__name__, str(exc)[:200])
        facts['C01'].append((cls, msg))
        facts['C11'].append((cls, msg))
    elif outcome == 'crash' and expect_reject:
        facts['C11'].append(('precondition_not_rejected', '%s raised %s instead of BCTParamError on %s input' % (routine, type(exc).__name__, expect_reject)))
    res.update(outcome=outcome, out=out, facts=facts, ndraws=rng.ndraws, forced=rng._st.forced, fired=rng.fired(),
               trace=rng.trace(), digest=rng.digest(), tail_draws=rng.tail_draws(), states=mon.states, breach=mon.breach, swaps=mon.swaps,
               nontrivial=(mon.swaps > 0) if env.HOOKS is not None else (outcome == 'ok' and out is not None and rng.ndraws > 0))
    sites = rng.site_counts()
    pr = res['probes']
    pr['accepted_swaps'] = mon.swaps
    pr['runs_with_swap'] = 1 if mon.swaps else 0
    pr['opaque_draws'] = rng._st.opaque
    if mon.breach is not None:
        pr['internal_breach:' + mon.breach[0]] = 1
    if outcome == 'rejected':
        pr['rejected:' + str(exc)[:40]] = 1
    ev = rng.events
    # retry probes from the trace: e1==e2 retry = a scalar randint directly after an equal one / after a size-2 draw with equal entries
    for x in range(1, min(len(ev), 4000)):
        m, a, s, site, val = ev[x]
        if m == 'randint' and s is None:
            pm, pa, ps, psite, pval = ev[x - 1]
            if pm == 'randint' and pa == a and ((ps is None and pval == val) or (ps is not None and len(set(np.asarray(pval).tolist())) == 1)):
                pr['e1_eq_e2_retry'] = pr.get('e1_eq_e2_retry', 0) + 1
    if sites.get('pick_four_unique_nodes_quickly', 0):
        pr['pick_four_calls'] = sites['pick_four_unique_nodes_quickly']
    return res


# ---------------------------------------------------------------------------------------------------
def gen_case(sub, routines, scn_id, connected=False, nmax=12, invalid_frac=0.0):
    rnd = random.Random(sub)
    routine = rnd.choice(routines)
    directed = routine in DIR
    expect_reject = None
    tiny = False
    params = {}
    wkind = 'bin' if routine == 'randomizer_bin_und' else None
    if routine == 'randomizer_bin_und':
        fam = rnd.choice(('er_sparse', 'er_mid', 'er_dense', 'near_complete', 'ring_chords', 'isolated', 'two_cliques'))
        W, meta = gen.graph_in_domain(rnd, False, wkind='bin', nmax=nmax, family=fam)
        if rnd.random() < 0.15 and len(W) > 5:
            # dense graph with isolated node(s): the complement path and the fully-connected-node path are both active
            for x in rnd.sample(range(len(W)), rnd.randint(1, 2)):
                W[x, :] = 0
                W[:, x] = 0
            meta['isolated_added'] = True
        elif rnd.random() < 0.12 and len(W) > 5:
            # a pendant node (degree 1) in an otherwise unchanged, possibly dense graph
            x = rnd.randrange(len(W))
            y = rnd.choice([z for z in range(len(W)) if z != x])
            W[x, :] = 0
            W[:, x] = 0
            W[x, y] = W[y, x] = 1.0
            meta['pendant_added'] = True
        params['alpha'] = rnd.choice((0, 0.3, 0.7, 1, 1))
    elif connected or routine in CONNECTED:
        W, meta = gen.connected_graph(rnd, directed, nmax=nmax, wkind=wkind)
    else:
        W, meta = gen.graph_in_domain(rnd, directed, nmax=nmax, wkind=wkind)
    n = len(W)
    if invalid_frac and routine in ('randmio_und_connected', 'latmio_und_connected') and rnd.random() < invalid_frac:
        if rnd.random() < 0.5:
            # disconnect: cut a node off (or split in two blocks)
            x = rnd.randrange(n)
            W = W.copy()
            y = rnd.random()
            if y < 0.2 and n >= 5:
                # a clique on n-1 nodes plus one isolated node: the densest disconnected network there is
                wts = W[W != 0]
                for a in range(n):
                    for b in range(a + 1, n):
                        W[a, b] = W[b, a] = (W[a, b] if W[a, b] != 0 else float(wts[rnd.randrange(len(wts))]))
                W[x, :] = 0
                W[:, x] = 0
            elif y < 0.6:
                W[x, :] = 0
                W[:, x] = 0
            else:
                h = rnd.randint(2, n - 2)
                W[:h, h:] = 0
                W[h:, :h] = 0
            expect_reject = 'disconnected'
            if G.connected_und(W):
                expect_reject = None
        else:
            W = W.copy()
            ii, jj = np.nonzero(np.triu(W, 1))
            if len(ii):
                x = rnd.randrange(len(ii))
                y = rnd.random()
                if y < 0.4:
                    W[ii[x], jj[x]] = 0
                elif y < 0.8:
                    W[ii[x], jj[x]] += 1.5
                else:
                    W[ii[x], jj[x]] *= (1 + 1e-9)  # an asymmetry far below any tolerance-based symmetry test
                    tiny = True
                expect_reject = 'asymmetric'
    if routine in LAT:
        params['itr'] = rnd.choice((0, 1, 1, 2, 3, 5))
        dk = rnd.random()
        if dk < 0.45:
            params['D'] = None
        else:
            D = np.array([[round(rnd.uniform(0, 5), 3) for _ in range(n)] for _ in range(n)])
            if rnd.random() < 0.3:
                D = np.round(D)  # ties in the lattice condition
            if not directed:
                D = (D + D.T) / 2
            x = rnd.random()
            if x < 0.15:
                D = np.round(D).astype(np.int64)  # integer distances (e.g. a ring-distance table)
                if not directed:
                    D = np.maximum(D, D.T)
            elif x < 0.25:
                D = D.astype(np.float32)
            params['D'] = enc(D)
    elif routine == 'randomize_graph_partial_und':
        params['maxswap'] = rnd.choice((0, 1, 2, 3, 5, 8, 10))
        dens = rnd.choice((0.0, 0.1, 0.2, 0.4))
        B = np.zeros((n, n))
        for a in range(n):
            for b in range(a + 1, n):
                if rnd.random() < dens:
                    B[a, b] = B[b, a] = rnd.choice((1.0, 2.0, -1.0))
        if rnd.random() < 0.2:
            np.fill_diagonal(B, 1.0)
        params['B'] = enc(B)
    elif routine != 'randomizer_bin_und':
        params['itr'] = rnd.choice((0, 1, 1, 2, 3, 5, 0.5))
    if meta.get('wkind') == 'float' and routine in LAT and rnd.random() < 0.3:
        W = W ** 3  # heavy-tailed weights (a few strong connections, many weak ones): one mis-judged swap then moves the lattice cost visibly
        meta['skewed'] = True
    if meta.get('wkind') == 'float' and routine != 'randomizer_bin_und' and rnd.random() < 0.12:
        W = W * rnd.choice((1e-9, 1e-6, 1e6))  # units: weights are moved, never computed, so every fact stays exact
        meta['scaled'] = True
    elif meta.get('wkind') == 'float' and routine != 'randomizer_bin_und' and rnd.random() < 0.25:
        W = W / W.max()  # pre-normalised weights: the largest is exactly 1.0 (and the smallest entry 0), as in a binary network
        meta['normalised'] = True
    r = rnd.random()
    if r < 0.12 and meta.get('wkind') in ('bin', 'int'):
        W = W.astype(np.int64)
    elif r < 0.17 and meta.get('wkind') in ('bin', 'int'):
        W = W.astype(np.int32)
    elif r < 0.21 and meta.get('wkind') == 'bin':
        W = W.astype(bool)
    elif r < 0.26:
        W = W.astype(np.float32)
    elif r < 0.31 and meta.get('wkind') == 'int' and not expect_reject:
        # counts (streamline numbers, co-activation counts) stored in the narrowest integer type that holds them, with
        # values in the upper half of its range: weights are moved, never computed, so every fact stays exact --
        # unless the routine does arithmetic on them in the container type
        dt, lo, hi = rnd.choice(((np.uint8, 128, 255), (np.int8, 64, 127), (np.uint16, 32768, 65535), (np.int16, 16384, 32767)))
        Wn = np.zeros(W.shape, dtype=dt)
        for a, b in zip(*np.nonzero(W if directed else np.triu(W, 1))):
            Wn[a, b] = rnd.randint(lo, hi) if rnd.random() < 0.8 else rnd.randint(1, 9)
            if not directed:
                Wn[b, a] = Wn[a, b]
        W = Wn
        meta['narrow_counts'] = np.dtype(dt).name
    if routine in ('randmio_und', 'latmio_und') and meta.get('wkind') == 'float' and not expect_reject and rnd.random() < 0.06:
        # symmetric only up to the tolerance of the routine's own np.allclose gate (two estimates of one undirected weight)
        ii, jj = np.nonzero(np.triu(W, 1))
        for x in rnd.sample(range(len(ii)), min(len(ii), rnd.randint(1, 3))):
            W[ii[x], jj[x]] *= (1 + rnd.choice((1e-7, -1e-7, 3e-6)))
        meta['nearsym'] = True
    if routine in LAT and meta.get('wkind') == 'int' and not expect_reject and 'narrow_counts' not in meta and rnd.random() < 0.05:
        # weights AND distances held in 8-bit integers: the lattice condition is then evaluated in int8 (products up to 135 wrap)
        W = W.astype(np.int8)
        D8 = np.array([[rnd.randint(0, 15) for _ in range(n)] for _ in range(n)])
        if not directed:
            D8 = np.maximum(D8, D8.T)
        params['D'] = enc(D8.astype(np.int8))
        meta['narrow8'] = True
    if expect_reject == 'asymmetric' and (np.array_equal(W, W.T) if tiny else np.allclose(W, W.T)):
        expect_reject = None  # the container type rounded the asymmetry away
    if expect_reject == 'disconnected' and G.connected_und(W):
        expect_reject = None
    k = int((W != 0).sum()) // (1 if directed else 2)
    itr = params.get('itr', params.get('maxswap', 1)) or 1
    budget = int(20000 + 400 * itr * max(k, 1) * 3)
    if routine == 'randomize_graph_partial_und':
        budget = 4000 + 2000 * params['maxswap']
    case = {'scn': scn_id, 'routine': routine, 'W': enc(W), 'params': params, 'seed': sub, 'policy': pick_policy(rnd, starve=(60, 150, 400, 3000)),
            'budget': budget, 'trace': None, 'meta': meta}
    x = rnd.random()
    if x < 0.08:
        case['layout'] = 'F'
    elif x < 0.12:
        case['layout'] = 'strided'
    if rnd.random() < 0.08:
        case['npscalars'] = True
    if expect_reject:
        case['expect_reject'] = expect_reject
    return case


def shrink_candidates(case, keep=None):
    """Smaller variants: fair policy, lower itr, fewer nodes, fewer edges, unit weights, shorter trace."""
    W = dec(case['W'])
    n = len(W)
    p = case['params']
    directed = case['routine'] in DIR or case['routine'] == 'randmio_dir_signed'

    def mk(**kw):
        c = dict(case)
        c.update(kw)
        return c
    if (case.get('policy') or {}).get('name', 'fair') != 'fair' and case.get('trace') is None:
        yield mk(policy={'name': 'fair'})
    for key in ('itr', 'maxswap'):
        if p.get(key):
            for val in sorted(set([0.5 if key == 'itr' and case['routine'] not in LAT else 1, 1, p[key] // 2 if isinstance(p[key], int) else 1])):
                if val and val < p[key]:
                    yield mk(params=dict(p, **{key: val}), trace=None)
    if p.get('D') is not None and case['routine'] in LAT:
        yield mk(params=dict(p, D=None), trace=None)
    if n > 4:
        for x in range(n):
            idx = [y for y in range(n) if y != x]
            W2 = W[np.ix_(idx, idx)]
            if keep is not None and not keep(W2):
                continue
            p2 = dict(p)
            for key in ('D', 'B'):
                if p.get(key) is not None:
                    p2[key] = enc(dec(p[key])[np.ix_(idx, idx)])
            yield mk(W=enc(W2), params=p2, trace=None)
    ii, jj = np.nonzero(W if directed else np.triu(W, 1))
    for a, b in list(zip(ii, jj))[:40]:
        W2 = W.copy()
        W2[a, b] = 0
        if not directed:
            W2[b, a] = 0
        if keep is not None and not keep(W2):
            continue
        yield mk(W=enc(W2), trace=None)
    if len(np.unique(np.abs(W[W != 0]))) > 1:
        W2 = np.sign(W) * (W != 0)
        yield mk(W=enc(W2.astype(W.dtype)), trace=None)
    tr = case.get('trace')
    if tr:
        for cut in (len(tr) // 2, len(tr) * 3 // 4, len(tr) - 1):
            if 0 < cut < len(tr):
                yield mk(trace=tr[:cut])
