"""Shared engine for the community-detection routines (C02, C07).

One simulated run = one call of one optimiser with a SimRNG as `seed` (every node visiting order is a
draw), optionally followed by a feed-back call from the routine's own output.  The `move`/`level`
hook computes the exact change in Q of every accepted move (guidance, never a verdict by itself).
Verdicts are taken on the returned (partition, q) pairs against the reference modularity.
"""
import random

import numpy as np

from sim import env
from sim.rng import SimBudget
from sim.util import enc, dec
from sim.oracles import modularity as M
from . import rewire

bct = env.bct

LOUVAIN = ('modularity_louvain_und', 'modularity_louvain_dir', 'modularity_louvain_und_sign')
FINETUNE = ('modularity_finetune_und', 'modularity_finetune_dir', 'modularity_finetune_und_sign')
SIGNED = ('modularity_louvain_und_sign', 'modularity_finetune_und_sign', 'modularity_probtune_und_sign', 'modularity_und_sign')
TAKES_START = FINETUNE + ('community_louvain',)
DET_GAIN = LOUVAIN + FINETUNE + ('community_louvain',)
ZERO = ('modularity_und', 'modularity_dir', 'modularity_und_sign')
# every optimiser works on a float view of W (since 1918deb), so boolean and unsigned containers are legal input everywhere
BOOL_OK = UNSIGNED_OK = LOUVAIN + FINETUNE + ('community_louvain', 'modularity_probtune_und_sign', 'modularity_und_sign', 'modularity_und', 'modularity_dir')
CROSS = {'und': ('modularity_louvain_und', 'modularity_finetune_und', 'community_louvain'), 'dir': ('community_louvain', 'modularity_finetune_dir'),
         'sign': ('modularity_louvain_und_sign', 'modularity_finetune_und_sign')}
QTOL = 1e-8
MONO_TOL = 1e-9


def ref_q(routine, W, ci, p):
    g = p.get('gamma', 1)
    if routine == 'community_louvain':
        obj = p.get('B', 'modularity')
        if obj == 'modularity':
            return M.q_dir(W, ci, g)
        if obj == 'negative_sym':
            return M.q_sign(W, ci, g, 'gja')
        if obj == 'negative_asym':
            return M.q_sign(W, ci, g, 'sta')
        return None
    if routine in SIGNED:
        return M.q_sign(W, ci, g, p.get('qtype', 'sta'))
    return M.q_dir(W, ci, g)


def potts_h(W, ci, g):
    same = np.asarray(ci)[:, None] == np.asarray(ci)[None, :]
    B = W - g * np.logical_not(W)
    return float((B * same).sum() / W.sum())


def call(routine, W, p, rng, start=None):
    f = getattr(bct, routine)
    g = p.get('gamma', 1)
    if routine == 'community_louvain':
        return f(W, gamma=g, ci=start, B=p.get('B', 'modularity'), seed=rng)
    if routine in ('modularity_louvain_und', 'modularity_louvain_dir'):
        return f(W, gamma=g, hierarchy=bool(p.get('hierarchy')), seed=rng)
    if routine == 'modularity_louvain_und_sign':
        return f(W, gamma=g, qtype=p.get('qtype', 'sta'), seed=rng)
    if routine in ('modularity_finetune_und', 'modularity_finetune_dir'):
        return f(W, ci=start, gamma=g, seed=rng)
    if routine == 'modularity_finetune_und_sign':
        return f(W, qtype=p.get('qtype', 'sta'), gamma=g, ci=start, seed=rng)
    if routine == 'modularity_probtune_und_sign':
        return f(W, qtype=p.get('qtype', 'sta'), gamma=g, ci=start, p=p.get('p', .45), seed=rng)
    if routine in ('modularity_und', 'modularity_dir'):
        return f(W, gamma=g, kci=start)
    if routine == 'modularity_und_sign':
        return f(W, start, qtype=p.get('qtype', 'sta'))
    raise KeyError(routine)


class MoveMonitor(object):
    """Hook callback: exact dQ of every accepted move on the current level's graph."""

    def __init__(self, routine, p, rng):
        self.routine, self.p, self.rng = routine, p, rng
        self.moves = 0
        self.neg = 0
        self.first_neg = None
        self.levels = 0
        self.maxlevel = 0
        self.ties = 0
        self.emptied = 0
        self.parts = set()
        self.gain_mismatch = 0

    def _q(self, s, labels):
        g = self.p.get('gamma', 1)
        if 'B' in s:
            same = labels[:, None] == labels[None, :]
            return float((s['B'] * same).sum())
        if 'W0' in s:
            W = s['W0'] - s['W1']
            # level matrices of the signed routines are aggregated W0/W1; the reference handles them as a signed network,
            # but aggregated self-weights of both signs may coexist in one cell, so evaluate on the two layers directly
            return _q_layers(s['W0'], s['W1'], labels, g, self.p.get('qtype', 'sta'), self.s0, self.s1)
        W = s['W']
        st = self.stot
        ko, ki = W.sum(1), W.sum(0)
        same = labels[:, None] == labels[None, :]
        return float(((W - g * np.outer(ko, ki) / st) * same).sum() / st)

    def __call__(self, event, s):
        if s.get('fn') != self.routine:
            return
        if event == 'level':
            self.levels += 1
            self.maxlevel = max(self.maxlevel, self.levels)
            return
        if event != 'move':
            return
        self.moves += 1
        labels = np.array(s['labels'])
        u, ma, mb = int(s['u']), int(s['ma']), int(s['mb'])
        if self.moves <= 200:
            try:
                if self.moves == 1 or not hasattr(self, 'stot'):
                    if 'W' in s:
                        self.stot = float(np.asarray(s['W']).sum())
                    if 'W0' in s:
                        self.s0, self.s1 = float(np.asarray(s['W0']).sum()), float(np.asarray(s['W1']).sum())
                before = labels.copy()
                before[u] = ma + 1
                dq = self._q(s, labels) - self._q(s, before)
                if dq < -1e-9:
                    self.neg += 1
                    if self.first_neg is None:
                        self.first_neg = (self.moves, self.rng.ndraws, float(dq), float(s.get('gain', 0)))
                if not (before == ma + 1).sum() > 1:
                    self.emptied += 1
            except Exception:
                pass
        if len(self.parts) < 64:
            self.parts.add(hash(labels.tobytes()))


def _q_layers(W0, W1, labels, g, qtype, s0, s1):
    same = labels[:, None] == labels[None, :]

    def part(X, s):
        if not s:
            return 0.0
        return float(((X - g * np.outer(X.sum(1), X.sum(0)) / s) * same).sum())
    tot = s0 + s1
    d = {'sta': (1 / s0 if s0 else 0, 1 / tot if tot else 0), 'pos': (1 / s0 if s0 else 0, 0), 'smp': (1 / s0 if s0 else 0, 1 / s1 if s1 else 0),
         'gja': (1 / tot if tot else 0, 1 / tot if tot else 0), 'neg': (0, 1 / s1 if s1 else 0)}[qtype]
    return d[0] * part(W0, s0) - d[1] * part(W1, s1)


def tol(W, base):
    """'to floating-point accuracy' means the accuracy of the container the caller chose"""
    return 2e-5 if W.dtype == np.float32 else base


def judge_pair(routine, W, p, ci, q, tag=''):
    """C02 facts for one (partition, q) pair."""
    v = []
    n = len(W)
    msg = M.valid_partition(ci, n)
    if msg:
        v.append(('invalid_partition', tag + msg))
        return v
    r = ref_q(routine, W, ci, p)
    if r is not None:
        try:
            qf = float(q)
        except Exception:
            v.append(('q_mismatch', tag + 'returned quality is not a number: %r' % (q,)))
            return v
        if not (abs(qf - r) <= tol(W, QTOL)):
            v.append(('q_mismatch', tag + 'returned q=%.12g but the modularity of the returned partition is %.12g (gamma=%s%s)' % (
                qf, r, p.get('gamma', 1), ', qtype=' + p['qtype'] if 'qtype' in p else (', B=' + p['B'] if 'B' in p else ''))))
    return v


def start_q(routine, W, p, start):
    n = len(W)
    ci = np.arange(1, n + 1) if start is None else np.unique(start, return_inverse=True)[1] + 1
    return ref_q(routine, W, ci, p), ci


def quality(routine, W, p, ci):
    # None for the Potts objective: it is not a modularity, C07 does not speak about it
    return ref_q(routine, W, ci, p)


def execute(case, mode):
    routine = case['routine']
    W = dec(case['W'])
    p = case['params']
    start = dec(case['start']) if case.get('start') is not None else None
    rng = rewire.make_rng(case, mode)
    mon = MoveMonitor(routine, p, rng)
    if env.HOOKS is not None:
        env.HOOKS.set_callback(mon)
    Win = W.copy()
    sin = None if start is None else start.copy()
    facts = {'C02': [], 'C07': [], 'C13': []}
    out = out2 = exc = None
    outcome = 'ok'
    n = len(W)
    cross_failed = False
    try:
        if case.get('cross'):
            pc = dict(p)
            pc.pop('hierarchy', None)
            if case['cross'] == 'community_louvain':
                pc['B'] = {'sign': 'negative_asym'}.get(case['meta'].get('kind'), 'modularity')
            try:
                co = call(case['cross'], Win, pc, rng, None)
            except bct.BCTParamError:
                co = None  # the helper optimiser failed: run the routine under test from its default start instead
                cross_failed = True
            if co is not None and M.valid_partition(co[0], n) is None:
                start = np.array(co[0]).copy()
                sin = start.copy()
        out = call(routine, Win, p, rng, sin)
        if case.get('feedback') and routine in TAKES_START and not p.get('hierarchy'):
            fb_start = np.array(out[0]).copy()
            out2 = call(routine, Win, p, rng, fb_start)
    except SimBudget:
        outcome = 'budget'
    except bct.BCTParamError as e:
        outcome, exc = 'rejected', e
        if 'nfinite' in str(e):
            # "Modularity infinite loop style X, please contact the developer": not a rejection of the input but the routine's
            # own loop guard giving up on a network of its documented domain - it does not return what C02/C07 promise
            outcome = 'loop_guard'
    except rewire.INTERNAL_ERRORS as e:
        outcome, exc = 'crash', e
    finally:
        if env.HOOKS is not None:
            env.HOOKS.set_callback(None)
    if not np.array_equal(Win, W) or (start is not None and not np.array_equal(sin, start)):
        facts['C13'].append(('caller_array_modified', '%s modified an argument' % routine))
    levels_returned = 0
    if outcome == 'ok':
        try:
            if p.get('hierarchy'):
                cis, qs = out
                cis = np.asarray(cis)
                levels_returned = len(qs)
                if len(cis) != len(qs) or len(qs) == 0:
                    facts['C02'].append(('invalid_partition', 'hierarchical output: %d label vectors, %d q values' % (len(cis), len(qs))))
                refs = []
                for h in range(min(len(cis), len(qs))):
                    facts['C02'] += judge_pair(routine, W, p, cis[h], qs[h], tag='level %d: ' % (h + 1))
                    if M.valid_partition(cis[h], n) is None:
                        refs.append(ref_q(routine, W, cis[h], p))
                for h in range(1, len(refs)):
                    if not refs[h] > refs[h - 1]:
                        facts['C07'].append(('hierarchy_not_increasing', 'modularity of level %d (%.12g) is not above level %d (%.12g)' % (h + 1, refs[h], h, refs[h - 1])))
                        break
                if refs:
                    q0, _ = start_q(routine, W, p, None)
                    if refs[-1] < q0 - tol(W, MONO_TOL):
                        facts['C07'].append(('below_start', 'final level Q=%.12g below singletons Q=%.12g' % (refs[-1], q0)))
            elif routine in ZERO and start is not None:
                ci, q = out
                r = ref_q(routine, W, start, p)
                if not abs(float(q) - r) <= tol(W, QTOL):
                    facts['C02'].append(('q_mismatch', 'given partition: returned q=%.12g, its modularity is %.12g' % (float(q), r)))
            else:
                ci, q = out
                facts['C02'] += judge_pair(routine, W, p, ci, q)
                if routine in DET_GAIN and M.valid_partition(ci, n) is None:
                    q0, ci0 = start_q(routine, W, p, start)
                    q1 = quality(routine, W, p, np.asarray(ci))
                    if q1 is not None and q1 < q0 - tol(W, MONO_TOL):
                        facts['C07'].append(('below_start', 'returned partition has Q=%.12g, the starting partition had Q=%.12g' % (q1, q0)))
                    if out2 is not None:
                        ci2, q2v = out2
                        facts['C02'] += judge_pair(routine, W, p, ci2, q2v, tag='fed-back run: ')
                        if q1 is not None and M.valid_partition(ci2, n) is None:
                            q2 = quality(routine, W, p, np.asarray(ci2))
                            if q2 < q1 - tol(W, MONO_TOL):
                                facts['C07'].append(('feedback_lowers', 'feeding the output back lowered Q from %.12g to %.12g' % (q1, q2)))
        except Exception as e:
            facts['C02'].append(('invalid_partition', 'return value could not be judged: %r' % (e,)))
    elif outcome == 'crash':
        cls = 'crash:' + type(exc).__name__
        msg = '%s raised %s: %s' % (routine, type(exc).__name__, str(exc)[:200])
        facts['C02'].append((cls, msg))  # C02 promises a returned (partition, q); C07 only constrains what is returned
    elif outcome == 'loop_guard':
        msg = '%s gave up on a valid network: %s' % (routine, str(exc)[:120])
        facts['C02'].append(('loop_guard', msg))
        outcome = 'crash'
    res = {'routine': routine, 'outcome': outcome, 'facts': facts, 'ndraws': rng.ndraws, 'forced': rng._st.forced, 'fired': rng.fired(),
           'trace': rng.trace(), 'digest': rng.digest(), 'probes': {}, 'extra': {}, 'states': mon.parts}
    res['nontrivial'] = (mon.moves > 0) if env.HOOKS is not None else rng.ndraws > 0
    if routine in ZERO:
        res['nontrivial'] = True
        res['digest'] = 'zero:' + str(case['seed'])
    pr = res['probes']
    pr['accepted_moves'] = mon.moves
    pr['levels'] = mon.levels
    if mon.maxlevel >= 2 or levels_returned >= 2:
        pr['louvain_level_ge_2'] = 1
    if mon.neg:
        pr['moves_with_negative_exact_dQ'] = mon.neg
        pr['runs_with_negative_move'] = 1
    if mon.emptied:
        pr['module_emptied'] = mon.emptied
    if outcome == 'rejected':
        pr['rejected:' + str(exc)[:40]] = 1
    if case.get('feedback') and out2 is not None:
        pr['feedback_runs'] = 1
    if case.get('cross') and start is not None:
        pr['cross_start_runs'] = 1
    if cross_failed:
        pr['cross_start_helper_failed'] = 1
    if routine in ZERO:
        pr['zero_draw'] = 1
    if case['meta'].get('onesign'):
        pr['signed_routine_on_nonnegative_input'] = 1
    res['info'] = {'maxlevel': max(mon.maxlevel, levels_returned), 'first_neg': mon.first_neg}
    res['first_neg'] = mon.first_neg
    return res


# ---------------------------------------------------------------------------------------------------
def planted(rnd, n, k, kind, weighted, pin, pout):
    lab = [rnd.randrange(k) for _ in range(n)]
    W = np.zeros((n, n))
    for a in range(n):
        for b in range(n):
            if a == b or (kind != 'dir' and b < a):
                continue
            pr = pin if lab[a] == lab[b] else pout
            if rnd.random() < pr:
                w = 1.0 if not weighted else (float(rnd.randint(1, 5)) if weighted == 'int' else round(rnd.uniform(0.1, 1.0), 4))
                if kind == 'sign' and lab[a] != lab[b] and rnd.random() < 0.7:
                    w = -w
                elif kind == 'sign' and rnd.random() < 0.15:
                    w = -w
                W[a, b] = w
                if kind != 'dir':
                    W[b, a] = w
    return W, np.array(lab) + 1


def gen_case(sub, routines, scn_id, nmax=12):
    rnd = random.Random(sub)
    routine = rnd.choice(routines)
    p = {'gamma': rnd.choice((0.5, 0.8, 1, 1, 1, 1.2, 1.5))}
    if routine == 'modularity_und_sign':
        p['gamma'] = 1  # the routine has no gamma parameter
    kind = 'und'
    if routine in SIGNED:
        kind = 'sign'
        p['qtype'] = rnd.choice(('sta', 'pos', 'smp', 'gja', 'neg'))
    elif routine in ('modularity_louvain_dir', 'modularity_finetune_dir', 'modularity_dir'):
        kind = 'dir'
    elif routine == 'community_louvain':
        p['B'] = rnd.choice(('modularity', 'modularity', 'potts', 'negative_sym', 'negative_asym'))
        if p['B'] in ('negative_sym', 'negative_asym'):
            kind = 'sign'
        elif rnd.random() < 0.3:
            kind = 'dir'
    if routine in ('modularity_louvain_und', 'modularity_louvain_dir') and rnd.random() < 0.35:
        p['hierarchy'] = True
    if routine == 'modularity_probtune_und_sign':
        p['p'] = rnd.choice((0.0, 0.2, 0.45, 0.8, 1.0))
    n = rnd.randint(4, nmax)
    k = rnd.randint(2, 4)
    weighted = rnd.choice((None, 'int', 'float'))
    if p.get('B') == 'potts':
        weighted = None
    # the signed routines document non-negative input as legal ("equivalent to modularity_louvain_und"): one run in seven
    onesign = kind == 'sign' and rnd.random() < 0.15
    for _ in range(30):
        W, lab = planted(rnd, n, k, 'und' if onesign else kind, weighted, rnd.choice((0.6, 0.8, 1.0)), rnd.choice((0.05, 0.15, 0.3, 0.5)))
        # domain of C02/C07: positive total weight (for signed networks: sum(W) > 0)
        ok = W.sum() > 1e-9 and (kind != 'sign' or onesign or ((W > 0).any() and (W < 0).any()))
        if kind != 'sign' and ok:
            # every node needs some weight, otherwise k_i = 0 nodes are a degenerate corner; keep a few of those too
            ok = True
        if ok:
            break
    else:
        W = np.zeros((n, n))
        W[0, 1] = W[1, 0] = 2.0
        W[2, 3] = W[3, 2] = -1.0 if kind == 'sign' else 1.0
    if kind != 'sign' and rnd.random() < 0.08:
        # structureless networks (no partition beats one module): complete graph, star, complete bipartite
        fam = rnd.choice(('complete', 'star', 'bipartite', 'ring', 'ring'))
        W = np.zeros((n, n))
        h = rnd.randint(1, n - 1)
        for a in range(n):
            for b in range(n):
                if a != b and (fam == 'complete' or (fam == 'star' and (a == 0 or b == 0)) or (fam == 'bipartite' and ((a < h) != (b < h)))
                               or (fam == 'ring' and (b == (a + 1) % n or (kind != 'dir' and a == (b + 1) % n)))):
                    W[a, b] = 1.0
        if fam == 'ring' and p.get('B') != 'potts':
            # exact ties everywhere; with one large uniform weight the routines' absolute 1e-10 gain threshold meets rounding noise
            W = W * rnd.choice((1.0, 1e7, 3e7, 1e8, 1e7 / 3))
            weighted = 'float'
        lab = np.array([1 + (x % 2) for x in range(n)])
    if rnd.random() < 0.15 and p.get('B') != 'potts':
        for x in rnd.sample(range(n), rnd.randint(1, max(1, n // 3))):
            W[x, x] = float(rnd.randint(1, 3)) if weighted != 'float' else round(rnd.uniform(0.1, 1.0), 4)
    start = None
    feedback = False
    cross = None
    if routine in TAKES_START + ('modularity_probtune_und_sign',) + ZERO:
        sk = rnd.choice(('none', 'random', 'planted', 'perturbed', 'noncontig', 'zerobased', 'feedback', 'cross', 'cross'))
        if routine in ZERO:
            sk = rnd.choice(('none', 'random', 'planted', 'noncontig', 'zerobased')) if routine != 'modularity_und_sign' else rnd.choice(('random', 'planted', 'noncontig', 'zerobased'))
        if sk == 'random':
            start = np.array([rnd.randint(1, max(2, n // 2)) for _ in range(n)])
        elif sk == 'planted':
            start = lab.copy()
        elif sk == 'perturbed':
            start = lab.copy()
            for x in rnd.sample(range(n), max(1, n // 4)):
                start[x] = rnd.randint(1, k)
        elif sk == 'noncontig':
            start = lab * rnd.choice((3, 10)) + rnd.choice((0, 5, -2))
        elif sk == 'zerobased':
            start = lab - rnd.choice((1, 1, 2))  # labels 0..k-1 (np.unique style) or starting at -1
        elif sk == 'feedback':
            feedback = True
        elif sk == 'cross' and routine not in ZERO:
            # start from ANOTHER optimiser's output for the same network and gamma: a local optimum of the true
            # objective, where a single wrong move lowers Q
            cross = rnd.choice(CROSS[kind])
    x = rnd.random()
    if p.get('B') == 'potts':
        pass  # the Potts objective requires a 0/1 matrix
    elif x < 0.06 and weighted is not None:
        # units: modularity is scale-free, the routines' absolute thresholds (1e-10 gains, allclose tests) are not
        W = W * rnd.choice((1e-9, 1e-6, 1e-3, 1e3, 1e6))
        weighted = 'float'
    elif x < 0.10 and kind == 'dir':
        # a directed network that is symmetric up to a relative 1e-7 (rounded reciprocal estimates)
        S = (W + W.T) / 2
        W = S * (1 + 1e-7 * np.array([[rnd.uniform(-1, 1) for _ in range(n)] for _ in range(n)]))
        weighted = 'float'
    narrow8 = False
    if kind == 'sign' and not onesign and weighted is None and rnd.random() < 0.1:
        W = W.astype(np.int8)  # a +-1 sign matrix in its natural container
        weighted = 'float'
    if weighted == 'int' and np.abs(W).max() <= 127 and rnd.random() < 0.06:
        # small integer weights held in an 8-bit container: degree sums exceed the container's range, the optimisers must not
        # accumulate in it
        W = W.astype(np.int8 if (W < 0).any() else rnd.choice((np.uint8, np.int8)))
        narrow8 = True
        weighted = 'float'  # no further container games
    if weighted == 'int' and (kind != 'sign' or onesign) and not narrow8 and routine in UNSIGNED_OK and (p.get('B') in (None, 'modularity', 'potts')) and rnd.random() < (0.05 if kind != 'sign' else 0.4):
        W = W.astype(rnd.choice((np.uint16, np.uint32)))  # unsigned counts
        weighted = 'float'
    r = rnd.random()
    meta_f32 = False
    if weighted != 'float' and r < 0.12:
        W = W.astype(rnd.choice((np.int64, np.int32)))  # integer container
    elif weighted is None and routine in BOOL_OK and kind != 'sign' and r < 0.22 and set(np.unique(W).tolist()) <= {0.0, 1.0}:
        # boolean adjacency matrix
        W = W.astype(bool)
    elif r > 0.95:
        W = W.astype(np.float32)
        meta_f32 = True
    if W.dtype == bool and cross is not None and cross not in BOOL_OK:
        cross = 'community_louvain'
    if W.dtype.kind == 'u' and cross is not None and cross not in UNSIGNED_OK:
        cross = 'community_louvain'
    if start is not None and rnd.random() < 0.2:
        start = start.astype(float)  # labels held in a float vector, as MATLAB users pass them
    case = {'scn': scn_id, 'routine': routine, 'W': enc(W), 'params': p, 'seed': sub, 'policy': pick_policy(rnd), 'budget': 40000,
            'trace': None, 'start': enc(start) if start is not None else None, 'feedback': feedback, 'cross': cross,
            'meta': {'n': n, 'kind': kind, 'k': k, 'onesign': onesign, 'f32': meta_f32, 'narrow8': narrow8}}
    return case


def pick_policy(rnd):
    x = rnd.random()
    if x < 0.5:
        return {'name': 'fair'}
    return {'name': rnd.choice(('edge', 'collide', 'mix')), 'rate': rnd.choice((0.1, 0.3, 0.6)), 'burst': rnd.choice((1, 2, 4)), 'site_frac': 1.0}


def shrink_candidates(case):
    W = dec(case['W'])
    n = len(W)
    p = case['params']
    start = dec(case['start']) if case.get('start') is not None else None
    kind = case['meta'].get('kind')
    if case['meta'].get('onesign'):
        kind = 'und'

    def mk(**kw):
        c = dict(case)
        c.update(kw)
        return c
    if (case.get('policy') or {}).get('name', 'fair') != 'fair' and case.get('trace') is None:
        yield mk(policy={'name': 'fair'})
    if case.get('feedback'):
        yield mk(feedback=False, trace=None)
    if case.get('cross'):
        yield mk(cross=None, trace=None)
    if start is not None:
        yield mk(start=None, trace=None)
    if n > 4:
        for x in range(n):
            idx = [y for y in range(n) if y != x]
            W2 = W[np.ix_(idx, idx)]
            if W2.sum() <= 1e-9 or (kind == 'sign' and not ((W2 > 0).any() and (W2 < 0).any())):
                continue
            yield mk(W=enc(W2), start=enc(start[idx]) if start is not None else None, trace=None)
    if np.any(np.diag(W) != 0):
        W2 = W.copy()
        np.fill_diagonal(W2, 0)
        yield mk(W=enc(W2), trace=None)
    if len(np.unique(np.abs(W[W != 0]))) > 1 and np.sign(W).sum() > 1e-9:
        yield mk(W=enc(np.sign(W)), trace=None)
    ii, jj = np.nonzero(np.triu(W, 1) if kind != 'dir' else W)
    for a, b in list(zip(ii, jj))[:30]:
        W2 = W.copy()
        W2[a, b] = 0
        if kind != 'dir':
            W2[b, a] = 0
        if W2.sum() <= 1e-9 or (kind == 'sign' and not ((W2 > 0).any() and (W2 < 0).any())):
            continue
        yield mk(W=enc(W2), trace=None)
