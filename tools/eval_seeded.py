#!/venv/bin/python
"""Evaluate a candidate seeded change: tools/eval_seeded.py <prop> <diff> <demo.py> [--baseline] [--tier quick|thorough] [--props C01,C11]
1. scratch copy of /repo (outside /repo and /verif), apply the diff
2. demo must exit 1 on the patched copy and 0 on /repo
3. optionally the pinned baseline suite on the patched copy (guard off) must match BASELINE.json
4. run the check(s) against the patched copy (BCT_REPO) and report whether they raise VIOLATION
The scratch copy is removed at the end."""
import argparse, json, os, shutil, subprocess, sys, tempfile, time
VERIF = os.path.dirname(os.path.dirname(os.path.abspath(__file__)))


def run(cmd, env=None, cwd=None, timeout=3000):
    p = subprocess.run(cmd, env=env, cwd=cwd, capture_output=True, text=True, timeout=timeout)
    return p.returncode, p.stdout, p.stderr


def main():
    ap = argparse.ArgumentParser()
    ap.add_argument('prop')
    ap.add_argument('diff')
    ap.add_argument('demo')
    ap.add_argument('--baseline', action='store_true')
    ap.add_argument('--tier', default='quick')
    ap.add_argument('--props')
    ap.add_argument('--seed', default=None)
    a = ap.parse_args()
    scratch = tempfile.mkdtemp(prefix='bctseed_')
    rec = {'property': a.prop, 'diff': a.diff}
    try:
        d = os.path.join(scratch, 'repo')
        shutil.copytree('/repo', d, ignore=shutil.ignore_patterns('.git', '__pycache__', '*.pyc', 'docs', 'function_reference.html'))
        rc, out, err = run(['git', 'apply', '--unsafe-paths', '--directory=' + d, os.path.abspath(a.diff)], cwd='/')
        if rc != 0:
            rc, out, err = run(['patch', '-p1', '-i', os.path.abspath(a.diff)], cwd=d)
        rec['applied'] = rc == 0
        if rc != 0:
            rec['apply_error'] = (out + err)[-400:]
            print(json.dumps(rec, indent=1))
            return 2
        envp = dict(os.environ, PYTHONPATH=d)
        envp.pop('BCTPY_VERIF', None)
        rc1, o1, e1 = run(['timeout', '120', '/venv/bin/python', os.path.abspath(a.demo)], env=envp, cwd=scratch)
        envc = dict(os.environ, PYTHONPATH='/repo')
        envc.pop('BCTPY_VERIF', None)
        rc0, o0, e0 = run(['timeout', '120', '/venv/bin/python', os.path.abspath(a.demo)], env=envc, cwd=scratch)
        rec['demo_exit_patched'] = rc1
        rec['demo_exit_clean'] = rc0
        rec['demo_tail_patched'] = (o1 + e1)[-300:]
        if a.baseline:
            rcb, ob, eb = run(['timeout', '1500', os.path.join(VERIF, 'tools', 'baseline_check.py'), d])
            rec['baseline_exit'] = rcb
            rec['baseline_line'] = ob.strip().splitlines()[-1] if ob.strip() else eb[-300:]
        rec['checks'] = {}
        for prop in (a.props.split(',') if a.props else [a.prop]):
            out_dir = os.path.join(scratch, 'out_' + prop)
            env = dict(os.environ, BCT_REPO=d, VERIF_OUT=out_dir)
            if a.seed:
                env['VERIF_SEED'] = a.seed
            t0 = time.time()
            rc, o, e = run(['timeout', '7200', '/venv/bin/python', os.path.join(VERIF, 'check.py'), prop, '--tier', a.tier], env=env)
            v = [l for l in o.splitlines() if l.startswith('VIOLATION') or l.startswith('  class=')]
            rec['checks'][prop] = {'exit': rc, 'wall_s': round(time.time() - t0, 1), 'detected': rc == 1 and any(l.startswith('VIOLATION') for l in v),
                                   'lines': [l[:400] for l in v[:4]], 'tail': o.strip().splitlines()[-1][:300] if o.strip() else e[-300:]}
    finally:
        shutil.rmtree(scratch, ignore_errors=True)
    print(json.dumps(rec, indent=1))
    return 0


if __name__ == '__main__':
    sys.exit(main())
