# executed by gen_manifest.py
claimed('C01', 'exploration', 'deterministic simulation: seeded SimRNG-scheduled swap trajectories, per-swap hook monitors, outcome oracles, trace replay',
        'Seeded search over draw sequences (edge pairs, flips, node permutations, mate choices) of the ten rewiring/latticisation routines under fair and adversarial (collision / boundary) schedules; the returned matrix is judged against the caller\'s pristine input on degrees, weight multiset, diagonal, symmetry, out-strength, zero-rewiring identity and the latticiser re-indexing law. Sampling, not proof: the draw-sequence space is unbounded, so exploration is the honest level.',
        'trusts numpy, the independent oracles in sim/oracles/graph.py, and that bct draws only through the RandomState it is given (checked: other RandomState methods are logged as opaque draws)',
        'DESIGN §5 C01')
PENDING.update({p: 'claimed by DESIGN.md but its check is still under construction in this session; will move to checks when committed' for p in
                ('C02', 'C05', 'C07', 'C13', 'C19')})
claimed('C11', 'exploration', 'deterministic simulation: seeded SimRNG-scheduled swap trajectories on bridge-rich inputs, per-swap connectivity/cost/mask monitors, outcome oracles, trace replay',
        'Seeded search over draw sequences of the four *_connected routines (connected / strongly connected, bridge-rich inputs where most swaps would disconnect), the four latticisers (caller-supplied and default D) and randomize_graph_partial_und (random masks), plus deliberately disconnected / asymmetric inputs that must be rejected with BCTParamError. Verdict on the returned matrices: BFS connectivity, sum(D*R) not increased, no connection in a masked cell. Sampling, not proof.',
        'trusts numpy and the independent BFS / cost oracles; D symmetric for undirected latticisers; the default D is read from the start hook (ring distance when hooks are absent)',
        'DESIGN §5 C11')
claimed('C06', 'exploration', 'deterministic simulation: SimRNG-scheduled four-node picks (incl. forced collisions) and weight-dealing permutations, outcome oracles, trace replay',
        'Seeded search over the randint(n**4) stream behind the four-node picks and the permutations that deal weights in the null models; the returned network is judged on positive/negative in/out degrees, both weight multisets (exact), empty diagonal, symmetry, and the returned strength correlations against an independent Pearson recomputation. Sampling, not proof.',
        'trusts numpy and the oracles in scenarios/c06.py (independent of bct); randmio_*_signed inputs have empty diagonals',
        'DESIGN §5 C06')
claimed('C20', 'exploration', 'deterministic simulation (thin): SimRNG-decided permutations / uniform matrices / repair-loop indices incl. boundary draws, outcome oracles on the generated matrix',
        'Seeded sampling of the parameter grid of the seven generators with their draws decided by the SimRNG (boundary permutations, all-low/all-high uniforms, colliding repair indices). For five generators a run is one draw, so simulation adds little over seeds (said in DESIGN); it is substantive for the repair loop of makerandCIJdegreesfixed and the rejection loop of maketoeplitzCIJ. Oracle: shape, 0/1 entries, empty diagonal, exact K, symmetry, degree sequences, ring-band order.',
        'trusts numpy and the oracles in scenarios/c20.py; feasible K only; BCTParamError is a legal outcome for degreesfixed / toeplitz',
        'DESIGN §5 C20')
