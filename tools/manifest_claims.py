# executed by gen_manifest.py
claimed('C01', 'exploration', 'deterministic simulation: seeded SimRNG-scheduled swap trajectories, per-swap hook monitors, outcome oracles, trace replay',
        'Seeded search over draw sequences (edge pairs, flips, node permutations, mate choices) of the ten rewiring/latticisation routines under fair and adversarial (collision / boundary) schedules; the returned matrix is judged against the caller\'s pristine input on degrees, weight multiset, diagonal, symmetry, out-strength, zero-rewiring identity and the latticiser re-indexing law. Sampling, not proof: the draw-sequence space is unbounded, so exploration is the honest level.',
        'trusts numpy, the independent oracles in sim/oracles/graph.py, and that bct draws only through the RandomState it is given (checked: other RandomState methods are logged as opaque draws)',
        'DESIGN §5 C01')
PENDING.update({p: 'claimed by DESIGN.md but its check is still under construction in this session; will move to checks when committed' for p in
                ('C02', 'C05', 'C06', 'C07', 'C11', 'C13', 'C19', 'C20')})
