#!/venv/bin/python
"""Writes /verif/MANIFEST.json from the tables below (single source of truth, validated against the schema)."""
import json, os, subprocess, sys
HERE = os.path.dirname(os.path.dirname(os.path.abspath(__file__)))

NA_REASON = {
 'C03': 'distance routines and efficiencies are deterministic functions of the matrix; no draw, shared state, pool or failure point exists on their path (DESIGN §2)',
 'C04': 'equivariance is a relation between two evaluations of a pure function on permuted inputs; the visiting order is fixed by the input, nothing to schedule (DESIGN §2)',
 'C08': 'betweenness is a pure function of the graph; no schedule, clock, fault or shared state (DESIGN §2)',
 'C09': 'clustering/transitivity are pure functions of the graph (DESIGN §2)',
 'C10': 'the reductions relate pairs of pure functions on one input (DESIGN §2)',
 'C12': 'retrieve_shortest_path and navigation_wu are deterministic (greedy rule, no randomness); path validity is a pure input/output relation (DESIGN §2)',
 'C14': 'label-invariance relates evaluations of pure functions on relabelled input (DESIGN §2)',
 'C15': 'k-core / s-core peeling is deterministic (DESIGN §2)',
 'C16': 'get_components is deterministic (set merging over a fixed edge order, int hashing is not randomised); exercised as a real component inside C19/C11 but not claimed (DESIGN §2)',
 'C17': 'thresholding / conversion utilities are pure apart from the copy=False write, which is covered as a rule of the C13 monitor, not claimed here (DESIGN §2)',
 'C18': 'MFPT, PageRank, subgraph/eigenvector centrality, findwalks are deterministic linear algebra on the input (DESIGN §2)',
}

# property -> (level, technique, level text, level note, design ref, quick timeout s, thorough timeout s)
CLAIMED = {}
PENDING = {}


def claimed(pid, level, technique, text, note, ref, tq=900, tt=7200):
    CLAIMED[pid] = dict(level=level, technique=technique, text=text, note=note, ref=ref, tq=tq, tt=tt)


exec(open(os.path.join(HERE, 'tools', 'manifest_claims.py')).read())

hook_commits = subprocess.run(['git', '-C', '/repo', 'log', '--format=%H', '--grep=guarded observation hooks'], capture_output=True, text=True).stdout.split()
base = json.load(open('/root/.vp/BASELINE.json'))
checks = []
for pid in sorted(CLAIMED):
    c = CLAIMED[pid]
    checks.append({
        'property_id': pid,
        'quick_cmd': 'timeout %d /venv/bin/python /verif/check.py %s --tier quick' % (c['tq'], pid),
        'thorough_cmd': 'timeout %d /venv/bin/python /verif/check.py %s --tier thorough' % (c['tt'], pid),
        'evidence_file': '/verif/evidence/%s.json' % pid,
        'replay_cmd_template': '/venv/bin/python /verif/check.py --replay {path}',
        'engine': 'simrng',
        'level_claimed': {'category': c['level'], 'text': c['text'], 'design_ref': c['ref']},
        'level_note': c['note'],
        'technique': c['technique'],
    })
na = [{'property_id': p, 'reason': r} for p, r in sorted(NA_REASON.items())]
for p, r in sorted(PENDING.items()):
    if p not in CLAIMED:
        na.append({'property_id': p, 'reason': r})
man = {
 'version': 1,
 'setup_cmd': '/venv/bin/python /verif/tools/setup_check.py',
 'hooks': {
   'guard': 'BCTPY_VERIF',
   'enable': 'export BCTPY_VERIF=1 before importing bct (sim/env.py does this); bct is imported from /repo\'s working tree, nothing is built or cached',
   'baseline_off_cmd': base['cmd'].replace('--junitxml=<file>', '').strip(),
   'source_commits': hook_commits,
   'add_only': True,
 },
 'engines': [
   {'name': 'simrng', 'path': '/verif/sim', 'serves_properties': sorted(CLAIMED),
    'kind_free_text': 'deterministic simulation: a numpy RandomState subclass (SimRNG) handed to bct as `seed` owns every random draw (scheduler, logical clock, fault point); seeded swarm of short runs across 16 processes; outcome oracles + hook step monitors; shrinking; strict trace replay'},
 ],
 'checks': checks,
 'not_applicable': sorted(na, key=lambda x: x['property_id']),
 'notes': 'Technique family: deterministic simulation with fault injection. See DESIGN.md. Exit codes: 0 held / 1 VIOLATION / 2 harness or inconclusive. known_findings.json lists genuine defects recorded rather than repaired, and fixed: entries for repaired ones.',
}
json.dump(man, open(os.path.join(HERE, 'MANIFEST.json'), 'w'), indent=1)
try:
    import jsonschema
    jsonschema.validate(man, json.load(open('/root/.vp/MANIFEST.schema.json')))
    print('MANIFEST.json valid;', len(checks), 'checks,', len(na), 'not_applicable')
except ImportError:
    print('jsonschema not available in this interpreter; written without validation')
