#!/venv/bin/python
"""print the markdown table of DESIGN 9.4 from the committed evidence files (quick tier) and the scenario tier sizes"""
import importlib, json, os, sys
V = os.path.dirname(os.path.dirname(os.path.abspath(__file__)))
sys.path.insert(0, V)
print('| property | quick runs | events (draws / ops) | distinct non-trivial traces | wall | runs / hour | thorough runs |')
print('|----------|-----------:|---------------------:|----------------------------:|-----:|------------:|--------------:|')
for p in ('C01', 'C02', 'C05', 'C06', 'C07', 'C11', 'C13', 'C19', 'C20'):
    e = json.load(open(os.path.join(V, 'evidence', p + '.json')))
    c = e['coverage']
    m = importlib.import_module('scenarios.' + p.lower())
    thorough = sum(s.TIERS['thorough'] for s in m.tiers('thorough'))
    print('| %s | %s | %s | %s | %.0f s | %s | %s |' % (p, format(c['simulated_runs'], ',').replace(',', ' '), format(c['simulated_time_events'], ',').replace(',', ' '),
                                                  format(c['distinct_nontrivial'], ',').replace(',', ' '), e['wall_s'], format(int(c['runs_per_hour']), ',').replace(',', ' '),
                                                  format(thorough, ',').replace(',', ' ')))
