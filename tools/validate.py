#!/usr/bin/env python3
"""python3-vt tools/validate.py : validate MANIFEST.json and every evidence file against the schemas."""
import glob, json, sys, jsonschema
ok = True
man = json.load(open('/verif/MANIFEST.json'))
jsonschema.validate(man, json.load(open('/root/.vp/MANIFEST.schema.json')))
es = json.load(open('/root/.vp/EVIDENCE.schema.json'))
for c in man['checks']:
    try:
        ev = json.load(open(c['evidence_file']))
        jsonschema.validate(ev, es)
        assert ev['level'] == c['level_claimed']['category'], 'level mismatch'
        print('ok', c['property_id'], ev['tier'], ev['coverage']['evaluations'], ev['coverage']['distinct_nontrivial'])
    except Exception as e:
        ok = False
        print('BAD', c['property_id'], str(e)[:300])
props = [json.loads(l)['id'] for l in open('/verif/properties.jsonl')]
cl = {c['property_id'] for c in man['checks']}
na = {x['property_id'] for x in man.get('not_applicable', [])}
print('unaccounted:', [p for p in props if p not in cl | na], 'both:', sorted(cl & na))
sys.exit(0 if ok else 1)
