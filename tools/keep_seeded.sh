#!/bin/bash
# keep_seeded.sh <id> <prop> <worktree OUT dir> <A|B> : evaluate (with baseline) and store under /verif/seeded/<id>/
set -e
id=$1; prop=$2; out=$3; x=$4; shift 4
d=/verif/seeded/$id
mkdir -p $d
cp $out/$x.diff $d/patch.diff
cp $out/demo_$x.py $d/demo.py
/venv/bin/python /verif/tools/eval_seeded.py $prop $d/patch.diff $d/demo.py --baseline "$@" > $d/eval.json 2>&1 || true
/venv/bin/python - "$id" "$prop" "$out" "$x" <<'PY'
import json, sys, os
id, prop, out, x = sys.argv[1:5]
d = '/verif/seeded/' + id
ev = json.load(open(d + '/eval.json'))
try:
    am = json.load(open(out + '/meta.json'))
except Exception:
    am = {}
sub = am.get(x) or am.get('change_' + x) or am.get(x.lower()) or am
meta = {'id': id, 'property': prop, 'source': 'independent sub-agent, given only the property text and a scratch worktree',
        'agent_description': sub, 'what_i_ran': ['tools/eval_seeded.py %s patch.diff demo.py --baseline (scratch copy of /repo, removed afterwards)' % prop],
        'demo_exit_on_patched_tree': ev.get('demo_exit_patched'), 'demo_exit_on_unchanged_tree': ev.get('demo_exit_clean'),
        'baseline_suite_on_patched_tree': ev.get('baseline_line'), 'checks': ev.get('checks')}
json.dump(meta, open(d + '/meta.json', 'w'), indent=1, default=str)
os.remove(d + '/eval.json')
print(id, prop, 'demo', ev.get('demo_exit_patched'), ev.get('demo_exit_clean'), 'baseline', ev.get('baseline_exit'), {k: (v['detected'], v['wall_s']) for k, v in ev.get('checks', {}).items()})
PY
