#!/venv/bin/python
"""Run the repository's pinned baseline suite (guard OFF) and compare with /root/.vp/BASELINE.json.
usage: baseline_check.py [repo_dir]   exit 0 iff every stable_pass test passed."""
import json, os, subprocess, sys, tempfile, xml.etree.ElementTree as ET
repo = sys.argv[1] if len(sys.argv) > 1 else '/repo'
base = json.load(open('/root/.vp/BASELINE.json'))
env = dict(os.environ); env.pop('BCTPY_VERIF', None)
with tempfile.TemporaryDirectory(prefix='bctbase') as td:
    xml = os.path.join(td, 'j.xml')
    # serial, like the pinned command: several tests are unseeded and their outcome depends on
    # what earlier tests in the same process drew from numpy's global generator
    cmd = ['/venv/bin/python', '-m', 'pytest', '-q', '-p', 'no:cacheprovider', '--timeout=900',
           '--continue-on-collection-errors', '--junitxml=' + xml]
    if os.environ.get('BASELINE_JOBS'):
        cmd += ['-n', os.environ['BASELINE_JOBS']]
    p = subprocess.run(cmd, cwd=repo, env=env, stdout=subprocess.PIPE, stderr=subprocess.STDOUT, text=True)
    passed, failed = set(), set()
    for tc in ET.parse(xml).getroot().iter('testcase'):
        name = tc.get('classname') + '::' + tc.get('name')
        bad = any(c.tag in ('failure', 'error', 'skipped') for c in tc)  # xfailed shows as skipped; xpassed as passed
        (failed if bad else passed).add(name)
missing = [t for t in base['stable_pass'] if t not in passed]
newpass = sorted(passed - set(base['stable_pass']))
print('passed', len(passed), 'failed', len(failed), 'baseline_missing', missing, 'newly_passing', newpass)
sys.exit(1 if missing else 0)
