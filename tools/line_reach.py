#!/venv/bin/python
"""Reach probe: which source lines of bct does a property's workload execute?  tools/line_reach.py C01 [--runs 400]
Runs the scenarios of the property in one process with a line tracer restricted to files under <repo>/bct and prints, per
function that was entered at all, the executable lines never reached. A line stuck at zero means the workload must change."""
import argparse, ast, importlib, os, sys
HERE = os.path.dirname(os.path.dirname(os.path.abspath(__file__)))
sys.path.insert(0, HERE)
ap = argparse.ArgumentParser()
ap.add_argument('prop')
ap.add_argument('--runs', type=int, default=400)
ap.add_argument('--only')
a = ap.parse_args()
from sim import env, runner
from sim.rng import subseed
ROOT = os.path.join(env.REPO, 'bct')
hits = {}


def tracer(frame, event, arg):
    fn = frame.f_code.co_filename
    if not fn.startswith(ROOT):
        return None
    d = hits.setdefault(fn, set())

    def local(frame, event, arg):
        if event == 'line':
            d.add(frame.f_lineno)
        return local
    d.add(frame.f_lineno)
    return local


mod = importlib.import_module('scenarios.' + a.prop.lower())
sys.settrace(tracer)
for scn in mod.tiers('quick'):
    for r in range(a.runs):
        sub = subseed(7, scn.PROP, scn.ID, r)
        case = scn.generate_r(sub, r) if hasattr(scn, 'generate_r') else scn.generate(sub)
        runner.guarded_execute(scn, case, 'gen')
sys.settrace(None)
for fn in sorted(hits):
    src = open(fn).read()
    tree = ast.parse(src)
    lines = src.split('\n')
    for node in ast.walk(tree):
        if isinstance(node, ast.FunctionDef):
            body_lines = set()
            for sub in ast.walk(node):
                if isinstance(sub, ast.stmt) and not isinstance(sub, (ast.FunctionDef,)) and hasattr(sub, 'lineno'):
                    if isinstance(sub, ast.Expr) and isinstance(getattr(sub, 'value', None), ast.Constant) and isinstance(sub.value.value, str):
                        continue
                    body_lines.add(sub.lineno)
            got = body_lines & hits[fn]
            if not got or (a.only and a.only not in node.name):
                continue
            miss = sorted(body_lines - hits[fn])
            print('%s:%s  %d/%d lines reached%s' % (os.path.relpath(fn, env.REPO), node.name, len(got), len(body_lines), '' if not miss else '  MISSING:'))
            for ln in miss:
                print('      %d: %s' % (ln, lines[ln - 1].strip()[:110]))
