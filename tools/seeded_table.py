#!/venv/bin/python
"""prints the markdown table of kept seeded changes (for DESIGN.md §9)"""
import glob, json, os
V = os.path.dirname(os.path.dirname(os.path.abspath(__file__)))
print('| id | property | what the change does / what it needs | caught by (quick) | violation class reported |')
print('|----|----------|--------------------------------------|-------------------|--------------------------|')
for d in sorted(glob.glob(os.path.join(V, 'seeded', '*'))):
    m = json.load(open(os.path.join(d, 'meta.json')))
    desc = m.get('summary') or ''
    if not desc:
        a = m.get('agent_description') or {}
        if isinstance(a, dict):
            desc = a.get('slip') or a.get('description') or a.get('what') or ''
            needs = a.get('needs') or a.get('manifests') or ''
            if isinstance(needs, (dict, list)):
                needs = json.dumps(needs)
            desc = (str(desc)[:220] + ' NEEDS: ' + str(needs)[:200]) if needs else str(desc)[:300]
        else:
            desc = str(a)[:300]
    caught = ', '.join('%s%s' % (k, '' if v['detected'] else ' (missed)') for k, v in m['checks'].items())
    cls = ''
    for k, v in m['checks'].items():
        for l in v.get('lines', []):
            if 'class=' in l:
                cls = l.split('class=')[1].split(' ')[0]
                break
        if cls:
            break
    hist = m.get('history') or []
    note = ''
    if any(not any(c['detected'] for c in h['checks'].values()) for h in hist):
        note = ' (missed by an earlier version of the check)'
    print('| %s | %s | %s | %s%s | %s |' % (os.path.basename(d), m['property'], desc.replace('|', '/').replace('\n', ' '), caught, note, cls))
