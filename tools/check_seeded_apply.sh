#!/bin/bash
# every kept seeded patch must apply to /repo's current HEAD (git -C /repo apply --check)
rc=0
for d in /verif/seeded/*/; do git -C /repo apply --check "$d/patch.diff" 2>/dev/null || { echo "DOES NOT APPLY: $d"; rc=1; }; done
[ $rc = 0 ] && echo "all $(ls -d /verif/seeded/*/ | wc -l) seeded patches apply to $(git -C /repo rev-parse --short HEAD)"
exit $rc
