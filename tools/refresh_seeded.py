#!/venv/bin/python
"""Re-run the quick check(s) against every kept seeded change (scratch copy, BCT_REPO) and refresh meta.json['checks'];
earlier results are appended to meta.json['history'] so that a change that was missed at first stays visible.
usage: refresh_seeded.py [--only id,id] [--tier quick]"""
import argparse, glob, json, os, subprocess, sys, time
VERIF = os.path.dirname(os.path.dirname(os.path.abspath(__file__)))
ap = argparse.ArgumentParser()
ap.add_argument('--only')
ap.add_argument('--tier', default='quick')
a = ap.parse_args()
rows = []
for d in sorted(glob.glob(os.path.join(VERIF, 'seeded', '*'))):
    sid = os.path.basename(d)
    if a.only and sid not in a.only.split(','):
        continue
    meta = json.load(open(os.path.join(d, 'meta.json')))
    props = ','.join(meta.get('checks', {}).keys()) or meta['property']
    p = subprocess.run(['/venv/bin/python', os.path.join(VERIF, 'tools', 'eval_seeded.py'), meta['property'], os.path.join(d, 'patch.diff'), os.path.join(d, 'demo.py'),
                        '--props', props, '--tier', a.tier], capture_output=True, text=True)
    ev = json.loads(p.stdout[p.stdout.index('{'):])
    hist = meta.setdefault('history', [])
    if meta.get('checks'):
        hist.append({'at_verif_commit': meta.get('verif_commit'), 'checks': {k: {'detected': v['detected'], 'wall_s': v['wall_s']} for k, v in meta['checks'].items()}})
    meta['checks'] = ev['checks']
    meta['demo_exit_on_patched_tree'] = ev.get('demo_exit_patched')
    meta['demo_exit_on_unchanged_tree'] = ev.get('demo_exit_clean')
    meta['verif_commit'] = subprocess.run(['git', '-C', VERIF, 'rev-parse', '--short', 'HEAD'], capture_output=True, text=True).stdout.strip()
    json.dump(meta, open(os.path.join(d, 'meta.json'), 'w'), indent=1, default=str)
    row = (sid, meta['property'], {k: v['detected'] for k, v in ev['checks'].items()})
    rows.append(row)
    print(*row)
    sys.stdout.flush()
missed = [r for r in rows if not any(r[2].values())]
print('seeded changes detected: %d / %d' % (len(rows) - len(missed), len(rows)), 'missed:', [r[0] for r in missed])
