#!/venv/bin/python
"""MANIFEST.setup_cmd: verify the offline environment the checks need; nothing is downloaded or built."""
import os, sys, compileall
ok = True
try:
    import numpy, scipy
    print('numpy', numpy.__version__, 'scipy', scipy.__version__)
except Exception as e:
    print('missing numeric stack:', e); ok = False
try:
    import hypothesis
    print('hypothesis', hypothesis.__version__)
except Exception:
    import subprocess
    r = subprocess.run([sys.executable, '-m', 'pip', 'install', '--no-index', '--find-links', '/opt/veriftools/wheels', 'hypothesis'], capture_output=True, text=True)
    print(r.stdout[-300:], r.stderr[-300:])
    ok = ok and r.returncode == 0
here = os.path.dirname(os.path.dirname(os.path.abspath(__file__)))
sys.path.insert(0, here)
os.environ.setdefault('BCT_REPO', '/repo')
from sim import env
print('bct from', env.bct.__file__, 'hooks', 'on' if env.HOOKS is not None and env.HOOKS.ENABLED else 'absent')
for d in ('evidence', 'replays'):
    os.makedirs(os.path.join(here, d), exist_ok=True)
sys.exit(0 if ok else 1)
