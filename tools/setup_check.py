#!/venv/bin/python
"""MANIFEST.setup_cmd: verify the offline environment the checks need; nothing is downloaded or built."""
import os, sys, compileall
ok = True
try:
    import numpy, scipy
    print('numpy', numpy.__version__, 'scipy', scipy.__version__)
except Exception as e:
    print('missing numeric stack:', e); ok = False
# (hypothesis is not needed: the C05 history world uses its own seeded generator, see DESIGN §3.4)
here = os.path.dirname(os.path.dirname(os.path.abspath(__file__)))
sys.path.insert(0, here)
os.environ.setdefault('BCT_REPO', '/repo')
from sim import env
print('bct from', env.bct.__file__, 'hooks', 'on' if env.HOOKS is not None and env.HOOKS.ENABLED else 'absent')
for d in ('evidence', 'replays'):
    os.makedirs(os.path.join(here, d), exist_ok=True)
sys.exit(0 if ok else 1)
