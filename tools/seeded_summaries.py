#!/venv/bin/python
"""one-line summaries of the kept seeded changes (written by hand from the sub-agents' reports); stored into meta.json['summary']"""
import json, os
V = os.path.dirname(os.path.dirname(os.path.abspath(__file__)))
S = {
 'c01-a-randmio-dir-bounded-draws': "randmio_dir: draw loop bounded to 3k tries without for/else; after 3k non-disjoint draws a chained pair is swapped and writes a self-loop. Needs a long run of colliding draws (fair seeds: n<=6 or hub graphs, <=2% of runs).",
 'c01-b-rbu-early-break': "randomizer_bin_und: `break` added to the edge-index update loop; together with the existing `i[it] = c` quirk a stale list entry later removes a non-edge and adds two edges. Seed-dependent, 0.3-10% of runs.",
 'c01-c-undconn-bounded-draws': "randmio_und_connected: draw loop bounded to 100 tries, falls through with a non-distinct quadruple and writes onto the diagonal. Needs 100 consecutive colliding draws (fair seeds: hub graphs with >= 40 nodes).",
 'c01-d-latmio-dir-zero-budget': "latmio_dir: `itr <= 0` fast path returns the un-permuted input as the latticisation-order matrix next to a random ind_rp. Needs itr == 0 and a check of the re-indexing law at zero budget.",
 'c01-e-rbu-undo-order': "randomizer_bin_und: 'restore inversion' moved before 'restore fullnodes'. Needs a dense graph (complement path) that also has an isolated node (fully-connected-node path); then isolated nodes come back as hubs.",
 'c01-f-latmio-und-D-permute': "latmio_und: node shuffling applied only when D is None, while the closing un-shuffle stays. Needs a caller-supplied D; per-node degrees in the caller's numbering change, all order-free facts still hold.",
 'c02-a-gja-onesign': "modularity_louvain_und_sign: placeholder s=1 for an absent sign now enters d0/d1 of 'gja'/'sta'. Needs qtype='gja' on a non-negative network; q is scaled by s0/(s0+1).",
 'c02-b-louvain-double-div': "community_louvain: early exit when the first sweep moves nothing returns the initial q divided by s twice. Needs a start partition that is already a node-level optimum (fed-back or finetune output).",
 'c02-c-kci-zero-label-wrap': "modularity_und/_dir with a given partition: indicator matrix built with ci-1 as column index, label 0 wraps to the last module. Needs zero-based or negative labels.",
 'c02-d-louvain-sign-return-level': "modularity_louvain_und_sign returns ci[h-1], q[h-1]; when the first pass finds no gain that is singletons with the placeholder q=0. Needs a structureless network (complete, star, bipartite, tiny sparse).",
 'c05-a-degfixed-global-redraw': "makerandCIJdegreesfixed: the redraw inside `while switch in tried` uses np.random instead of rng. Needs collision + rejected partner + repeated index (0.3-8% of calls at n 12-30, more for small n).",
 'c05-b-seed-zero': "get_rng: `if not seed` treats seed 0 as 'no seed'. Needs exactly the seed value 0.",
 'c05-c-pickfour-fallback-global': "pick_four_unique_nodes_quickly: bounded rejection loop with an np.random.choice fallback after 20 rejections. Needs n <= 8 (nested in the signed rewiring / null models).",
 'c05-d-genmodel-rng-per-pair': "generative_model: get_rng(seed) moved into the per-parameter generators, so an int seed restarts per (eta, gamma) pair while a RandomState continues. Needs >= 2 parameter pairs and the int-vs-RandomState comparison.",
 'c05-e-coreperiphery-tie-global': "core_periphery_dir: tie-break draw uses np.random.randint; randint(1) draws nothing, so only exact ties move the global stream and results never change. Needs tied gains (binary / small-integer weights) and a global-state check.",
 'c05-f-nullmodel-unsigned-reseed': "null_model_und_sign: new non-negative branch calls randmio_und(seed=seed); with an int seed the weight stage restarts the stream. Needs non-negative, not fully connected input, bin_swaps > 0, wei_freq != 0, int vs RandomState.",
 'c06-a-null-und-last-batch': "null_model_und_sign: batch loop `range(wsize, 1, -period)` drops the m == 1 batch; one weight is never placed. Needs (#pos or #neg edges) % period == 1.",
 'c06-b-null-dir-diagonal': "null_model_dir_sign: diagonal masked only in the adjacency masks, W keeps the caller's diagonal. Needs a non-zero diagonal in the input.",
 'c06-c-null-und-unique-weights': "null_model_und_sign: sorted weight vector taken with np.unique, merging tied weights. Needs equal weights of one sign (integer / binary signed networks).",
 'c06-d-pickfour-smalln-replace': "pick_four_unique_nodes_quickly: `rng.choice(n, 4)` (with replacement) for n < 6; a repeated node lets a swap write onto the diagonal. Needs n in {4, 5} and a sparse network.",
 'c07-a-louvain-inplace-relabel': "community_louvain: relabelling between rounds done in place (dropped M0 copy); a module is relabelled twice and attached to the wrong group. Needs >= 2 aggregation rounds and a good start.",
 'c07-b-finetune-dir-gamma': "modularity_finetune_dir: gamma dropped from the dq_i term. Needs gamma != 1 and a start that is a local optimum of the true objective.",
 'c07-c-finetune-sign-gja-scale': "modularity_finetune_und_sign: d0 of 'gja' copied from the neighbouring branch (1/s0). Needs qtype='gja', both signs, and a start from another optimiser.",
 'c07-d-louvain-hnm-alias': "community_louvain: `Hnm = B` (dropped copy) after aggregation; in-place updates rewrite B from round 2 on. Needs a start whose modules chain (ring of cliques) and a suitable visiting order.",
 'c07-e-finetune-sign-diag-dropped': "modularity_finetune_und_sign: diagonal of W0/W1 cleared after s0/s1 were computed, degrees miss the self-weights. Needs a signed matrix with a non-zero diagonal.",
 'c07-f-finetune-und-bool-dot': "modularity_finetune_und: knm built with one np.dot; for a bool adjacency matrix the product is logical. Needs a dtype-bool matrix and an explicit start partition.",
 'c11-a-dirconn-transposed-guard': "randmio_dir_connected: R[d, b] -> R[b, d] in the shortcut that skips the reachability search. Needs a sparse strongly connected digraph with a one-way chord b->d where a->b is a bridge (2-3% of ring+chord runs).",
 'c11-b-latmio-default-D-odd': "latmio_und_connected: default D built with range(n // 2): for odd n the middle row stays zero and cost-raising swaps are accepted. Needs D=None, odd n, sparse input.",
 'c11-c-undconn-dense-fastpath': "randmio_und_connected: 'dense' shortcut with min degree >= (n-1)//2 skips the path search; for even n that admits two cliques of n/2. Needs even n and an (n/2-1)-regular input (hexagon: 20% of seeds).",
 'c11-d-partial-stale-occupancy': "randomize_graph_partial_und: cached occupancy matrix marks vacated cells free, ignoring the mask; a masked cell whose edge was rewired away gets a new edge. Invisible to an end-state 'created where A was empty' check; needs distinct weights or a per-swap monitor.",
 'c13-a-charpath-scoped-copy': "charpath: D.copy() moved into the `not include_diagonal` branch. Needs include_diagonal=True, include_infinite=False and inf in the matrix.",
 'c13-b-pagerank-falff-alias': "pagerank_centrality: np.asarray(falff) then `/=` rescales the caller's prior. Needs falff given as a float64 array whose sum is not 1.",
 'c13-c-binarize-bool-alias': "binarize(copy=True) via astype(copy=False): returns the caller's own array for bool input; get_components / dice_pairwise_und / clique_communities then edit it. Needs a dtype-bool matrix.",
 'c13-d-erange-write-before-raise': "erange: removes each edge from the caller's matrix and restores it, without try/finally. Needs reachdist to raise (integer / bool matrices under numpy 2).",
 'c13-e-eig-overwrite-fortran': "eigenvector_centrality_und: linalg.eig(CIJ, overwrite_a=True). Needs a Fortran-contiguous floating-point matrix.",
 'c13-f-consensus-tau0-nocopy': "consensus_und: `dt = D` when tau <= 0 drops the implicit copy before fill_diagonal. Needs tau == 0 and a non-zero diagonal.",
 'c19-a-pooled-variance-weights': "nbs_bct: pooled variance weights swapped between the groups. Needs unequal group sizes.",
 'c19-b-null-node-largest': "nbs_bct: null[u] taken from the component with most nodes. Needs a relabelling with a smaller-but-denser component.",
 'c19-c-paired-narrow-int': "nbs_bct: subject tables keep the caller's dtype; paired differences wrap / overflow. Needs paired=True and narrow integer stacks.",
 'c19-d-parallel-block-remainder': "nbs_parallel: contiguous blocks of k // workers permutations per worker, remainder dropped (null entries stay 0). Needs k not divisible by the worker count.",
 'c19-e-perm-threshold-ge': "nbs_bct: `>=` instead of `>` in the permutation loop only. Needs a permuted statistic exactly equal to the threshold (thresh = 0 with equal group means / absent connections).",
 'c19-f-parallel-sum-collapse': "nbs_parallel: worker results collapsed with sum instead of max. Needs tasks of one chunk to share the pickled `null` array (k > 4*workers under the real pool).",
 'c20-a-degfixed-selfloop': "makerandCIJdegreesfixed: diagonal placeholder replaced by explicit tests, one symmetric test forgotten; a self-connection on a rare swap path, row/column sums intact.",
 'c20-b-ring-complete': "makeringlatticeCIJ: `while kk <= k`; for k == n(n-1) a full band is revisited and then wiped.",
 'c20-c-ring-incremental-count': "makeringlatticeCIJ: running count `kk += 2n` over-counts the antipodal band for even N; the whole band is wiped for N(N-2) < K <= N(N-1).",
 'c20-d-randdir-sparse-fastpath': "makerandCIJ_dir: k < n fast path replaces collided draws only once; a second-round collision leaves K-1 connections (0.3-4.5% of seeds).",
 'c20-e-toeplitz-isclose-largeK': "maketoeplitzCIJ: `np.sum(CIJ) != k` -> `not np.isclose(...)`; relative tolerance 1e-5 passes K +- 1 once K reaches 1e5. Needs N >= 317 (caught by the four large-N runs of scenario c20.large).",
 'c20-f-ring-antipodal-twice': "makeringlatticeCIJ: wrap-around band added when `seq <= seq2` (should be <), excess removal vectorised with a silently clamping slice; the antipodal band is wiped for even N and K > N(N-2).",
 'c06-e-signed-int-overflow': "randmio_und_signed: sign comparison via `x*y > 0`; in int16/int32 arrays the product overflows and opposite signs look equal. Needs large counts in a narrow integer container.",
 'c06-f-null-dir-rank-ties': "null_model_dir_sign, wei_freq == 0: argsort assignment replaced by searchsorted ranks; tied expected weights get the same rank, weights duplicated / dropped. Needs wei_freq == 0 and coarse (integer) weights.",
 'c02-e-finetune-bool-pooling': "modularity_finetune_und/_dir: final pooling as S.T @ W @ S with a boolean S; the product takes W's dtype (logical for bool, wrapping for int8). Needs a bool or narrow-integer matrix.",
 'c02-f-louvain-allclose-sym': "community_louvain: symmetrisation only `if not np.allclose(B, B.T)`; a directed network with weights ~1e-9 (or reciprocal weights equal to 1e-7) stays asymmetric: q mismatch after two levels or the routine's own 'infinite loop style G' error.",
}
for sid, text in S.items():
    p = os.path.join(V, 'seeded', sid, 'meta.json')
    if os.path.exists(p):
        m = json.load(open(p))
        m['summary'] = text
        json.dump(m, open(p, 'w'), indent=1, default=str)
    else:
        print('missing', sid)
print(len(S), 'summaries')
