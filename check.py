#!/venv/bin/python
"""Single entry point: check.py <property-id> [--tier quick|thorough] [--replay path] [--runs N] [--jobs N]
exit 0 = property held on everything explored (KNOWN-FINDING lines allowed); 1 = VIOLATION; 2 = harness/inconclusive."""
import argparse
import importlib
import json
import os
import sys

HERE = os.path.dirname(os.path.abspath(__file__))
sys.path.insert(0, HERE)

if os.environ.get('PYTHONHASHSEED') != '0':
    os.environ['PYTHONHASHSEED'] = '0'
    os.execv(sys.executable, [sys.executable] + sys.argv)


def main():
    ap = argparse.ArgumentParser()
    ap.add_argument('prop', nargs='?')
    ap.add_argument('--tier', default=os.environ.get('VERIF_TIER', 'quick'))
    ap.add_argument('--replay')
    ap.add_argument('--runs', type=int)
    ap.add_argument('--jobs', type=int)
    ap.add_argument('--scenario')
    a = ap.parse_args()
    if a.replay:
        payload = json.load(open(a.replay))
        prop = payload['property']
    else:
        prop = a.prop
    mod = importlib.import_module('checks.' + prop.lower())
    if a.replay:
        sys.exit(mod.replay(payload, a.replay))
    S = int(os.environ.get('VERIF_SEED', '20260926'))
    tier = a.tier if a.tier in ('quick', 'thorough') else 'quick'
    sys.exit(mod.main(tier, S, runs=a.runs, jobs=a.jobs, only=a.scenario))


if __name__ == '__main__':
    main()
