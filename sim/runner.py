"""Seeded batch runner: many short simulated runs across processes, aggregation, minimisation,
known-finding matching, replay files, evidence.  Scenario modules provide

    ID, PROP, TIERS = {'quick': n, 'thorough': n}
    generate(sub)            -> case (JSON-able dict; case['seed'] == sub)
    execute(case, mode)      -> result dict (see RESULT KEYS); mode in 'gen' | 'strict' | 'lenient'
    shrink_candidates(case)  -> iterator of smaller cases               (optional)
    view(case, result)       -> small JSON-able description for samples (optional)

RESULT KEYS: outcome ('ok'|'violation'|'budget'|'rejected'|'hang'|'discard'), vclass, msg, routine,
trace (list), digest, nontrivial (bool), ndraws, forced, fired {kind: n}, probes {name: n},
states (iterable of state digests, optional), extra {..}.
"""
import concurrent.futures as cf
import faulthandler
import json
import multiprocessing
import os
import signal
import sys
import time
import traceback

from . import env
from .rng import subseed, ReplayDiverged
from .util import case_digest, short

VERIF = os.path.dirname(os.path.dirname(os.path.abspath(__file__)))
OUT = os.environ.get('VERIF_OUT') or VERIF  # evidence/ and replays/ go here (self-tests redirect them to a scratch dir)
RUN_WALL_S = 30  # per simulated run safety net (never a verdict)


_DEVNULL = open(os.devnull, 'w')
_CTX = {'known': {'findings': []}, 'predicates': {}}  # set before the pool forks


class SimHang(BaseException):
    pass


def _alarm(signum, frame):
    raise SimHang()


def guarded_execute(scn, case, mode):
    """execute() with a wall-clock safety net; harness exceptions are tagged, never verdicts."""
    old = signal.signal(signal.SIGALRM, _alarm)
    signal.setitimer(signal.ITIMER_REAL, getattr(scn, 'WALL_S', RUN_WALL_S))
    saved = sys.stdout
    sys.stdout = _DEVNULL  # bct prints progress lines; they are not part of any verdict
    try:
        return scn.execute(case, mode)
    except SimHang:
        return {'outcome': 'hang', 'routine': case.get('routine', '?'), 'ndraws': 0, 'msg': 'wall-clock safety net (%ds)' % RUN_WALL_S}
    finally:
        sys.stdout = saved
        signal.setitimer(signal.ITIMER_REAL, 0)
        signal.signal(signal.SIGALRM, old)


def _new_agg():
    return {'runs': 0, 'outcomes': {}, 'by_routine': {}, 'events': 0, 'forced': 0, 'fired': {}, 'probes': {},
            'digests': set(), 'states': set(), 'violations': [], 'samples': [], 'harness_errors': [], 'policies': {},
            'max_draws': 0, 'max_tail': 0, 'extra': {}}


def _bump(d, k, n=1):
    d[k] = d.get(k, 0) + n


def _merge(a, b):
    a['runs'] += b['runs']
    a['events'] += b['events']
    a['forced'] += b['forced']
    a['max_draws'] = max(a['max_draws'], b['max_draws'])
    a['max_tail'] = max(a['max_tail'], b['max_tail'])
    for key in ('outcomes', 'fired', 'probes', 'policies', 'extra'):
        for k, v in b[key].items():
            _bump(a[key], k, v)
    for r, d in b['by_routine'].items():
        t = a['by_routine'].setdefault(r, {})
        for k, v in d.items():
            _bump(t, k, v)
    a['digests'] |= b['digests']
    a['states'] |= b['states']
    a['violations'].extend(b['violations'])
    a['harness_errors'].extend(b['harness_errors'])
    if len(a['samples']) < 6:
        a['samples'].extend(b['samples'][:6 - len(a['samples'])])


def _run_block(args):
    scn, S, start, stop = args
    faulthandler.enable()
    agg = _new_agg()
    kept = {}
    for r in range(start, stop):
        sub = subseed(S, scn.PROP, scn.ID, r)
        try:
            case = scn.generate_r(sub, r) if hasattr(scn, 'generate_r') else scn.generate(sub)
            res = guarded_execute(scn, case, 'gen')
        except Exception:
            agg['harness_errors'].append({'scn': scn.ID, 'r': r, 'sub': sub, 'tb': traceback.format_exc()[-2000:]})
            continue
        agg['runs'] += 1
        oc = res['outcome']
        _bump(agg['outcomes'], oc)
        _bump(agg['by_routine'].setdefault(res.get('routine', '?'), {}), oc)
        agg['events'] += res.get('ndraws', 0)
        agg['max_draws'] = max(agg['max_draws'], res.get('ndraws', 0))
        agg['forced'] += res.get('forced', 0)
        if oc in ('ok', 'rejected') and res.get('tail_draws') is not None:
            agg['max_tail'] = max(agg['max_tail'], res['tail_draws'])
        _bump(agg['policies'], (case.get('policy') or {}).get('name', 'fair'))
        for k, v in (res.get('fired') or {}).items():
            _bump(agg['fired'], k, v)
        for k, v in (res.get('probes') or {}).items():
            if v:
                _bump(agg['probes'], k, int(v))
        for k, v in (res.get('extra') or {}).items():
            _bump(agg['extra'], k, int(v))
        if res.get('nontrivial') and res.get('digest'):
            agg['digests'].add(res['digest'])
        for s in res.get('states') or ():
            agg['states'].add(s)
        if oc == 'violation':
            v = {'case': case, 'vclass': res['vclass'], 'msg': res['msg'], 'routine': res.get('routine', '?'), 'r': r, 'info': res.get('info')}
            f = match_known(_CTX['known'], scn.PROP, v, _CTX['predicates'])
            key = (v['routine'], v['vclass'], f['id'] if f else None)
            v['kf'] = f['id'] if f else None
            kept[key] = kept.get(key, 0) + 1
            if kept[key] <= 2:  # per (routine, class, listed finding): a listed finding can never crowd out a new violation
                agg['violations'].append(v)
            _bump(agg['extra'], 'violating_runs:' + (v['kf'] or 'NEW:%s:%s' % (v['routine'], v['vclass'])))
        elif len(agg['samples']) < 2 and res.get('nontrivial'):
            view = getattr(scn, 'view', None)
            agg['samples'].append(view(case, res) if view else {'scenario': scn.ID, 'seed': sub, 'outcome': oc, 'routine': res.get('routine'),
                                                                'ndraws': res.get('ndraws'), 'policy': case.get('policy'),
                                                                'first_draws': [e[:1] + e[3:] for e in (res.get('trace') or [])[:6]]})
    return scn.ID, agg


def is_violation(res, vclass=None):
    return res.get('outcome') == 'violation' and (vclass is None or res.get('vclass') == vclass)


def shrink(scn, case, vclass, wall_s=25.0, max_steps=4000):
    """Greedy minimisation: accept any candidate that still shows the same violation class."""
    gen = getattr(scn, 'shrink_candidates', None)
    t0 = time.time()
    steps = 0
    if gen is not None:
        progress = True
        while progress and time.time() - t0 < wall_s and steps < max_steps:
            progress = False
            for cand in gen(case):
                steps += 1
                if time.time() - t0 > wall_s or steps > max_steps:
                    break
                try:
                    r = guarded_execute(scn, cand, 'lenient')
                except Exception:
                    continue
                if is_violation(r, vclass):
                    cand = dict(cand)
                    cand['trace'] = r.get('trace')
                    case = cand
                    progress = True
                    break
    return case, steps


def finalize_replay(scn, case, vclass):
    """Record the exact trace of the (shrunk) case and make sure a strict replay reproduces it."""
    r = guarded_execute(scn, case, 'lenient' if case.get('trace') is not None else 'gen')
    if not is_violation(r, vclass):
        return None, r
    c = dict(case)
    c['trace'] = r.get('trace')
    try:
        r2 = guarded_execute(scn, c, 'strict')
    except ReplayDiverged:
        return None, r
    if not is_violation(r2, vclass):
        return None, r2
    return c, r2


def load_known():
    p = os.path.join(VERIF, 'known_findings.json')
    if not os.path.exists(p):
        return {'findings': [], 'fixed': []}
    return json.load(open(p))


def match_known(known, prop, v, predicates):
    for f in known.get('findings', []):
        if f.get('property') != prop or f.get('status', 'open') != 'open':
            continue
        if f.get('routine') not in (None, v['routine']):
            continue
        if f.get('vclass') not in (None, v['vclass']):
            continue
        pred = predicates.get(f.get('predicate', 'any'))
        if pred is None:
            continue
        try:
            if pred(v['case'], v):
                return f
        except Exception:
            continue
    return None


def write_replay(prop, scn, case, res, note=None):
    d = os.path.join(OUT, 'replays', prop)
    os.makedirs(d, exist_ok=True)
    payload = {'property': prop, 'scenario': scn.ID, 'vclass': res.get('vclass'), 'msg': res.get('msg'), 'routine': res.get('routine'),
               'repo_rev': env.repo_rev(), 'note': note, 'case': case}
    path = os.path.join(d, '%s-%s.json' % (scn.ID.replace('.', '_'), case_digest(case)))
    with open(path, 'w') as f:
        json.dump(payload, f, indent=None, default=str)
    return path


def run_check(prop, level, scenarios, tier, S, predicates=None, rule='', assumptions=(), counts=None, jobs=None, extra_cov=None,
              min_nontrivial_frac=0.0, wall_cap_s=None, post=None):
    """Run every scenario `counts[scn.ID]` (default scn.TIERS[tier]) times; returns exit code."""
    t0 = time.time()
    predicates = predicates or {}
    jobs = jobs or int(os.environ.get('VERIF_JOBS', '0')) or min(16, os.cpu_count() or 4)
    print('VERIF_SEED=%d property=%s tier=%s jobs=%d repo=%s rev=%s hooks=%s' % (S, prop, tier, jobs, env.REPO, env.repo_rev(),
                                                                                  'on' if env.HOOKS is not None and env.HOOKS.ENABLED else 'absent'))
    sys.stdout.flush()
    tasks = []
    per = {}
    for scn in scenarios:
        n = (counts or {}).get(scn.ID, scn.TIERS[tier])
        per[scn.ID] = (_new_agg(), scn, n)
        blk = max(10, min(400, n // (jobs * 4) or 1))
        for s in range(0, n, blk):
            tasks.append((scn, S, s, min(n, s + blk)))
    # interleave scenarios so a wall cap cuts all of them evenly
    tasks.sort(key=lambda t: (t[2], t[0].ID))
    truncated = False
    _CTX['known'] = load_known()
    _CTX['predicates'] = predicates
    ctx = multiprocessing.get_context('fork')
    broken = None
    with cf.ProcessPoolExecutor(max_workers=jobs, mp_context=ctx) as ex:
        futs = [ex.submit(_run_block, t) for t in tasks]
        try:
            for f in cf.as_completed(futs):
                sid, agg = f.result()
                _merge(per[sid][0], agg)
                if wall_cap_s and time.time() - t0 > wall_cap_s and not truncated:
                    truncated = True
                    for g in futs:
                        g.cancel()
        except cf.process.BrokenProcessPool as e:
            broken = repr(e)
        except cf.CancelledError:
            pass
    total = _new_agg()
    for sid, (agg, scn, n) in per.items():
        _merge(total, agg)
    known = load_known()
    exit_code = 0
    lines = []
    reported = 0
    kf_seen = {}
    new_groups = {}
    for sid, (agg, scn, n) in per.items():
        for v in agg['violations']:
            f = match_known(known, prop, v, predicates)
            if f is not None:
                kf_seen.setdefault(f['id'], [f, 0, v])
                kf_seen[f['id']][1] += 1
            else:
                new_groups.setdefault((sid, v['routine'], v['vclass']), []).append(v)
    for fid, (f, cnt, v) in sorted(kf_seen.items()):
        cnt = total['extra'].get('violating_runs:' + fid, cnt)
        kf_seen[fid][1] = cnt
        lines.append('KNOWN-FINDING: property=%s %s [%s; %d run(s) in this batch, e.g. seed %s]' % (prop, f['what'], fid, cnt, v['case'].get('seed')))
    for f in known.get('findings', []):
        # every listed open finding of this property is announced, also when this batch did not happen to hit it
        if f.get('property') == prop and f.get('status', 'open') == 'open' and f['id'] not in kf_seen and f.get('scenario_props', prop) == prop:
            lines.append('KNOWN-FINDING: property=%s %s [%s; not hit by this batch]' % (prop, f['what'], f['id']))
    viol_records = []
    for (sid, routine, vclass), vs in sorted(new_groups.items()):
        scn = per[sid][1]
        v = min(vs, key=lambda x: x['r'])
        case = v['case']
        steps = 0
        try:
            small, steps = shrink(scn, case, vclass)
            final, res = finalize_replay(scn, small, vclass)
            if final is None:
                final, res = finalize_replay(scn, case, vclass)
        except Exception:
            final, res = None, {'msg': 'shrink failed: ' + traceback.format_exc()[-500:]}
        if final is None:
            # could not confirm by strict replay in this process: report the original case as generated
            final = case
            res = {'vclass': vclass, 'msg': v['msg'] + ' [unshrunk; replays in gen mode]', 'routine': routine}
        # a shrunk case may have turned into a listed finding; keep reporting it as new only if it still is not listed
        path = write_replay(prop, scn, final, dict(res, vclass=vclass, routine=routine), note='%d run(s) in this batch; %d shrink steps' % (len(vs), steps))
        lines.append('VIOLATION property=%s replay=%s' % (prop, path))
        lines.append('  class=%s routine=%s scenario=%s seed=%s: %s' % (vclass, routine, sid, case.get('seed'), short(res.get('msg'), 600)))
        viol_records.append({'scenario': sid, 'routine': routine, 'vclass': vclass, 'runs': len(vs), 'replay': path})
        reported += 1
        exit_code = 1
    # inconclusive / harness conditions
    notes = []
    if total['harness_errors']:
        exit_code = max(exit_code, 2) if exit_code != 1 else 1
        notes.append('HARNESS-ERROR x%d: %s' % (len(total['harness_errors']), total['harness_errors'][0]['tb'][-800:]))
    if broken:
        exit_code = max(exit_code, 2) if exit_code != 1 else 1
        notes.append('HARNESS-ERROR worker pool broke: ' + broken)
    for r, d in total['by_routine'].items():
        tot = sum(d.values())
        inconc = d.get('budget', 0) + d.get('hang', 0)
        if tot >= 20 and inconc * 2 > tot:
            notes.append('INCONCLUSIVE routine=%s: %d of %d runs ended on the draw budget / safety net' % (r, inconc, tot))
            if exit_code == 0:
                exit_code = 2
    zero_probes = []
    wall = time.time() - t0
    cov = {
        'evaluations': total['runs'],
        'distinct_nontrivial': len(total['digests']),
        'rule': rule,
        'samples': total['samples'][:6] or [{'note': 'no non-trivial sample kept'}],
        'simulated_runs': total['runs'],
        'runs_per_hour': int(total['runs'] / max(wall, 1e-6) * 3600),
        'seeds_per_hour': int(total['runs'] / max(wall, 1e-6) * 3600),
        'simulated_time_events': total['events'],
        'max_events_in_one_run': total['max_draws'],
        'bounded_progress_max_draws_after_last_forced_draw': total['max_tail'],
        'forced_draws': total['forced'],
        'fault_kinds_fired': dict(sorted(total['fired'].items())),
        'policies': dict(sorted(total['policies'].items())),
        'reach_probes': dict(sorted(total['probes'].items())),
        'distinct_states_visited': len(total['states']),
        'outcomes': dict(sorted(total['outcomes'].items())),
        'outcomes_by_routine': {k: dict(sorted(v.items())) for k, v in sorted(total['by_routine'].items())},
        'per_scenario_runs': {sid: per[sid][0]['runs'] for sid in per},
        'other_counters': dict(sorted(total['extra'].items())),
        'known_findings_seen': {fid: x[1] for fid, x in kf_seen.items()},
        'new_violation_groups': viol_records,
        'truncated_by_wall_cap': truncated,
        'real_vs_stub': {'real': 'every line of bct executed from %s' % env.REPO,
                         'stub': 'numpy RandomState (SimRNG subclass handed in as seed), stdout'},
        'jobs': jobs,
        'repo_rev': env.repo_rev(),
        'hooks': 'on' if env.HOOKS is not None and env.HOOKS.ENABLED else 'absent',
        'exhaustive': False,
    }
    if extra_cov:
        cov.update(extra_cov(total, per) if callable(extra_cov) else extra_cov)
    if post:
        post(total, per, cov, lines)
    ev = {'property_id': prop, 'tier': tier, 'seed': int(S), 'level': level, 'coverage': cov,
          'assumptions': list(assumptions), 'wall_s': round(wall, 2), 'violations': reported}
    os.makedirs(os.path.join(OUT, 'evidence'), exist_ok=True)
    with open(os.path.join(OUT, 'evidence', prop + '.json'), 'w') as f:
        json.dump(ev, f, indent=1, default=str)
    for ln in lines:
        print(ln)
    for nt in notes:
        print(nt)
    print('%s %s: %d runs, %d events, %d distinct non-trivial traces, outcomes %s, %.1fs, exit %d' % (
        prop, tier, total['runs'], total['events'], len(total['digests']), dict(sorted(total['outcomes'].items())), wall, exit_code))
    return exit_code
