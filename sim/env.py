"""Process set-up shared by every entry point: import bct from the *current working tree*
of the repository (BCT_REPO, default /repo) with the guarded hooks switched on."""
import os
import sys

REPO = os.path.abspath(os.environ.get('BCT_REPO', '/repo'))
os.environ['BCTPY_VERIF'] = '1'
for _v in ('OPENBLAS_NUM_THREADS', 'OMP_NUM_THREADS', 'MKL_NUM_THREADS'):
    os.environ.setdefault(_v, '1')
os.environ.setdefault('DUECREDIT_ENABLE', 'no')
sys.dont_write_bytecode = True
if sys.path[0] != REPO:
    sys.path.insert(0, REPO)

import warnings  # noqa: E402
warnings.filterwarnings('ignore')
import numpy as np  # noqa: E402
np.seterr(all='ignore')

import bct  # noqa: E402
if not os.path.abspath(bct.__file__).startswith(REPO + os.sep):
    raise RuntimeError('bct imported from %s, expected under %s' % (bct.__file__, REPO))
try:
    from bct.utils import _verif as HOOKS
except Exception:  # a tree without the hook module: checks fall back to outcome oracles only
    HOOKS = None


def repo_rev():
    import subprocess
    try:
        h = subprocess.run(['git', '-C', REPO, 'rev-parse', '--short', 'HEAD'], capture_output=True, text=True).stdout.strip()
        d = subprocess.run(['git', '-C', REPO, 'status', '--porcelain', '--untracked-files=no'], capture_output=True, text=True).stdout.strip()
        return h + ('+dirty' if d else '')
    except Exception:
        return 'unknown'
