"""Registry of every seed-accepting public entry point of bct with a small argument generator.

make(rnd) -> (args, kwargs) with fresh arrays (never shared between calls). Inputs are small
(n 4..8) so that one call costs milliseconds; they are calibrated to the documented domain.
bad(rnd)  -> arguments that make the routine raise its own BCTParamError (or None).
"""
import numpy as np

from . import env, gen

bct = env.bct


def _und(rnd, n=None, fam=None, wkind=None, connected=False):
    n = n or rnd.randint(5, 8)
    if connected:
        W, _ = gen.connected_graph(rnd, False, n=n, wkind=wkind)
    else:
        W, _ = gen.graph_in_domain(rnd, False, n=n, wkind=wkind, family=fam)
    return W


def _dir(rnd, n=None, connected=False, wkind=None):
    n = n or rnd.randint(5, 8)
    if connected:
        W, _ = gen.connected_graph(rnd, True, n=n, wkind=wkind)
    else:
        W, _ = gen.graph_in_domain(rnd, True, n=n, wkind=wkind)
    return W


def _signed(rnd, directed, small=False, maybe_unsigned=False):
    W, _ = gen.signed_graph(rnd, directed, nmax=5 if small else 8)
    if maybe_unsigned and rnd.random() < 0.25:
        W = np.abs(W)  # the null models document non-negative input as legal (their 'no negative weights' branch)
    return W


def _planted(rnd, kind):
    from scenarios import modopt
    n = rnd.randint(5, 9)
    for _ in range(30):
        W, lab = modopt.planted(rnd, n, rnd.randint(2, 3), kind, rnd.choice((None, 'int')), 0.8, 0.2)
        if W.sum() > 1e-9 and (kind != 'sign' or ((W > 0).any() and (W < 0).any())):
            return W, lab
    W = np.zeros((n, n))
    W[0, 1] = W[1, 0] = 2.0
    W[2, 3] = W[3, 2] = -1.0 if kind == 'sign' else 1.0
    return W, np.arange(1, n + 1)


def _itr(rnd):
    return rnd.choice((1, 2))


REG = {}


def reg(name, make, bad=None, fn=None, note=None):
    REG[name] = {'name': name, 'make': make, 'bad': bad, 'fn': fn, 'note': note}


def call(name, args, kwargs, **extra):
    e = REG[name]
    f = e['fn'] or getattr(bct, name)
    kw = dict(kwargs)
    kw.update(extra)
    return f(*args, **kw)


# -- rewiring -------------------------------------------------------------------------------------
reg('randmio_und', lambda r: ((_und(r), _itr(r)), {}), bad=lambda r: ((_dir(r, n=5, wkind='int') + np.triu(np.ones((5, 5)), 1), 1), {}))
reg('randmio_dir', lambda r: ((_dir(r), _itr(r)), {}))
reg('randmio_und_connected', lambda r: ((_und(r, connected=True), _itr(r)), {}), bad=lambda r: ((np.kron(np.eye(2), np.ones((3, 3)) - np.eye(3)), 1), {}))
reg('randmio_dir_connected', lambda r: ((_dir(r, connected=True), _itr(r)), {}))
reg('latmio_und', lambda r: ((_und(r), _itr(r)), {}))
reg('latmio_dir', lambda r: ((_dir(r), _itr(r)), {}))
reg('latmio_und_connected', lambda r: ((_und(r, connected=True), _itr(r)), {}), bad=lambda r: ((np.kron(np.eye(2), np.ones((3, 3)) - np.eye(3)), 1), {}))
reg('latmio_dir_connected', lambda r: ((_dir(r, connected=True), _itr(r)), {}))
reg('randomize_graph_partial_und', lambda r: ((_und(r, n=r.randint(6, 8), fam=r.choice(('ring', 'er_sparse', 'ring_chords'))), np.zeros((8, 8))[:0], r.randint(1, 2)), {}))
reg('randomizer_bin_und', lambda r: ((_und(r, wkind='bin', fam=r.choice(('er_mid', 'er_sparse', 'ring_chords'))), r.choice((0.5, 1))), {}),
    bad=lambda r: ((np.ones((4, 4)) - np.eye(4), 1), {}))
# -- signed null models ---------------------------------------------------------------------------
reg('randmio_und_signed', lambda r: ((_signed(r, False, small=r.random() < 0.5), _itr(r)), {}))
reg('randmio_dir_signed', lambda r: ((_signed(r, True, small=r.random() < 0.5), _itr(r)), {}))
reg('null_model_und_sign', lambda r: ((_signed(r, False, small=r.random() < 0.5, maybe_unsigned=True),), {'bin_swaps': r.choice((1, 2)), 'wei_freq': r.choice((0.3, 1))}),
    bad=lambda r: ((_signed(r, True),), {}))
reg('null_model_dir_sign', lambda r: ((_signed(r, True, small=r.random() < 0.5, maybe_unsigned=True),), {'bin_swaps': r.choice((1, 2)), 'wei_freq': r.choice((0.3, 1))}))
# -- synthetic generators -------------------------------------------------------------------------
reg('makerandCIJ_und', lambda r: ((r.randint(4, 8), r.randint(1, 6)) if r.random() > 0.15 else (r.randint(24, 40), r.randint(1, 3)), {}))  # 15 %: density below 1 %
reg('makerandCIJ_dir', lambda r: ((r.randint(4, 8), r.randint(1, 12)) if r.random() > 0.15 else (r.randint(24, 40), r.randint(1, 5)), {}))
reg('makeringlatticeCIJ', lambda r: ((r.randint(5, 8), r.randint(3, 17)), {}))
reg('maketoeplitzCIJ', lambda r: ((r.randint(5, 8), r.randint(3, 9), r.choice((1.0, 2.0))), {}))
reg('makeevenCIJ', lambda r: ((8, r.randint(16, 40), 2), {}))
reg('makefractalCIJ', lambda r: ((3, r.choice((2, 3)), 2), {}))


def _degseq(r):
    n = r.randint(4, 7)
    A = np.zeros((n, n), dtype=int)
    for a in range(n):
        for b in range(n):
            if a != b and r.random() < 0.4:
                A[a, b] = 1
    if A.sum() == 0:
        A[0, 1] = 1
    return (A.sum(0), A.sum(1)), {}


reg('makerandCIJdegreesfixed', _degseq)
# -- community detection --------------------------------------------------------------------------
reg('community_louvain', lambda r: ((_planted(r, r.choice(('und', 'dir')))[0],), {'gamma': r.choice((1, 1.2))}))
reg('modularity_louvain_und', lambda r: ((_planted(r, 'und')[0],), {'gamma': r.choice((1, 0.8)), 'hierarchy': r.random() < 0.3}))
reg('modularity_louvain_dir', lambda r: ((_planted(r, 'dir')[0],), {'gamma': r.choice((1, 0.8)), 'hierarchy': r.random() < 0.3}))
reg('modularity_louvain_und_sign', lambda r: ((_planted(r, 'sign')[0],), {'qtype': r.choice(('sta', 'smp', 'gja'))}))
reg('modularity_finetune_und', lambda r: (lambda W, lab: ((W,), {'ci': r.choice((None, lab))}))(*_planted(r, 'und')))
reg('modularity_finetune_dir', lambda r: (lambda W, lab: ((W,), {'ci': r.choice((None, lab))}))(*_planted(r, 'dir')))
reg('modularity_finetune_und_sign', lambda r: (lambda W, lab: ((W,), {'ci': r.choice((None, lab)), 'qtype': r.choice(('sta', 'pos'))}))(*_planted(r, 'sign')))
reg('modularity_probtune_und_sign', lambda r: (lambda W, lab: ((W,), {'ci': r.choice((None, lab)), 'p': r.choice((0.2, 0.45, 0.9))}))(*_planted(r, 'sign')))
# -- other stochastic routines --------------------------------------------------------------------
reg('core_periphery_dir', lambda r: ((_dir(r, wkind=r.choice(('bin', 'int'))),), {'gamma': r.choice((1, 0.7))}))


def _consensus(r):
    n = r.randint(5, 7)
    lab = np.array([r.randrange(2) for _ in range(n)])
    D = (lab[:, None] == lab[None, :]).astype(float) * r.choice((0.8, 0.9, 1.0))
    for _ in range(r.randint(0, 3)):
        a, b = r.randrange(n), r.randrange(n)
        if a != b:
            D[a, b] = D[b, a] = r.choice((0.2, 0.5, 0.7))
    np.fill_diagonal(D, 0)
    return (D, r.choice((0.3, 0.6))), {'reps': r.randint(2, 4)}


reg('consensus_und', _consensus)


def _rentian(r):
    n = r.randint(5, 8)
    A = (_und(r, n=n, wkind='bin') != 0).astype(float)
    xyz = np.array([[round(r.uniform(0, 10), 3) for _ in range(3)] for _ in range(n)])
    if r.random() < 0.3:
        # a tight cluster plus one distant node: almost every random cube is empty, the sampling loop runs long
        xyz = np.array([[round(r.uniform(0, 1), 3) for _ in range(3)] for _ in range(n)])
        xyz[r.randrange(n)] += r.choice((150.0, 300.0))
    return (A, xyz, r.randint(2, 5)), {}


reg('rentian_scaling', _rentian)


def _nbs(r):
    n = r.randint(4, 5)
    nx, ny = r.randint(3, 5), r.randint(3, 5)
    paired = r.random() < 0.3
    if paired:
        ny = nx

    def stack(m, shift):
        X = np.zeros((n, n, m))
        for s in range(m):
            for a in range(n):
                for b in range(a + 1, n):
                    v = round(r.gauss(0, 1), 4) + (shift if (a + b) % 2 == 0 else 0)
                    X[a, b, s] = X[b, a, s] = v
        return X
    return (stack(nx, 1.5), stack(ny, 0.0), r.choice((1.0, 2.0))), {'k': r.randint(3, 8), 'tail': r.choice(('both', 'left', 'right')), 'paired': paired}


reg('nbs_bct', _nbs)


def _genmodel(r):
    n = r.randint(6, 8)
    A = (_und(r, n=n, wkind='bin', fam='er_sparse') != 0).astype(float)
    xyz = np.array([[r.uniform(0, 10) for _ in range(3)] for _ in range(n)])
    D = np.sqrt(((xyz[:, None, :] - xyz[None, :, :]) ** 2).sum(-1))
    D = np.round(D, 4)
    m = int(np.triu(A, 1).sum()) + r.randint(1, 3)
    mt = r.choice(('euclidean', 'matching', 'neighbors', 'deg-avg', 'clu-avg', 'deg-prod'))
    # eta 1 and 0: exponents that make the power an identity / a constant
    npar = r.choice((1, 2, 3))  # a sweep over several (eta, gamma) pairs runs the generator once per pair
    return (A, D, m, [r.choice((-1.0, -2.0, -0.5, 1.0, 0.0)) for _ in range(npar)]), {'gamma': [r.choice((0.5, 1.0, 0.2)) for _ in range(npar)], 'model_type': mt,
                                                                            'model_var': r.choice(('powerlaw', 'exponential'))}


reg('generative_model', _genmodel)


def _evalgen(r):
    (A, D, m, eta), kw = _genmodel(r)
    Atgt = A.copy()
    n = len(A)
    for _ in range(3):
        a, b = r.randrange(n), r.randrange(n)
        if a != b:
            Atgt[a, b] = Atgt[b, a] = 1.0
    return (A, Atgt, D, eta), kw


reg('evaluate_generative_model', _evalgen)
reg('get_rng', lambda r: ((), {}))
reg('pick_four_unique_nodes_quickly', lambda r: ((r.choice((4, 4, 5, 6, 9)),), {}))


# -- nbs_parallel under the in-process pool (worker count, chunking and interleaving differ on every call) ----------
POOL_STATE = {'n': 0, 'seed': 0, 'out_of_order': 0, 'calls': 0}


def _nbs_parallel(x, y, thresh, k=5, tail='both', paired=False, seed=None):
    import bct.nbs_parallel as NP
    from sim.worlds.pool import FakeMP
    POOL_STATE['n'] += 1
    c = POOL_STATE['n']
    mp = FakeMP((POOL_STATE['seed'] * 1000003 + c * 7919) & 0x7fffffff, cpu=1 + c % 5, chunksize=(None, 1, 2)[c % 3])
    saved = NP.multiprocessing
    NP.multiprocessing = mp
    try:
        return NP.nbs_bct(x, y, thresh, k=k, tail=tail, paired=paired, seed=seed, workers=(1, 2, 3, -1)[c % 4])
    finally:
        NP.multiprocessing = saved
        POOL_STATE['calls'] += 1
        if mp.out_of_order():
            POOL_STATE['out_of_order'] += 1


reg('nbs_parallel.nbs_bct', _nbs, fn=_nbs_parallel, note='bct.nbs_parallel.nbs_bct with multiprocessing replaced by the seeded in-process pool')

EXCLUDED = {'generate_fc': 'raises NotImplementedError before any draw', 'mleme_constraint_model': 'raises NotImplementedError'}


def _fix_partial():
    # randomize_graph_partial_und needs a mask of the right size
    def make(r):
        # rings (+ chords) always keep admissible swaps, so the routine's attempt loop terminates (it has no attempt limit)
        A = _und(r, n=r.randint(7, 9), fam=r.choice(('ring', 'ring_chords')))
        return (A, np.zeros(A.shape), r.randint(1, 2)), {}
    REG['randomize_graph_partial_und']['make'] = make


_fix_partial()
NAMES = sorted(REG)
