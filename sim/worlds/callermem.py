"""Caller-memory world for C13: the simulator is the caller; it owns the arrays it hands to the library,
keeps pristine deep copies, and compares after the call returns or raises.

Arguments are synthesised from parameter names (plus a few per-function overrides); matrices have
non-zero diagonals, signed entries and odd community labels on purpose.
"""
import inspect
import types

import numpy as np
import scipy.sparse as sp

from sim import env

bct = env.bct

EXCLUDED = {
    'adjacency_plot_und': 'plotting (needs mayavi)', 'writetoPAJ': 'writes a file', 'make_motif34lib': 'writes a file',
    'get_rng': 'takes no array', 'teachers_round': 'scalar only', 'cuberoot': 'pure ufunc on a copy',
    'generate_fc': 'raises NotImplementedError before touching anything',
}
# the only legal writes: first argument of these when copy=False is requested
COPY_FALSE = ('threshold_absolute', 'threshold_proportional', 'binarize', 'normalize', 'invert', 'logtransform', 'autofix', 'weight_conversion')
MATRIX_NAMES = ('A', 'W', 'CIJ', 'G', 'Gw', 'R', 'adj', 'adjacency', 'D', 'L', 'm1', 'm2', 'a1', 'a2', 'CIJ0', 'Atgt', 'sc', 'B', 'Pmat', 'hops')
VECTOR_LABEL_NAMES = ('ci', 'kci', 'cx', 'cy', 'c', 'Ci')


DUST = 0.06  # share of float64 matrices that carry rounding dust (see _dust)
ZERO_D = 0.1  # share of numeric scalar arguments handed over as 0-d arrays
OPTION_VALUES = {
    'transform': (None, 'inv', 'log'), 'degree': ('undirected', 'in', 'out'), 'coef_type': ('default', 'zhang', 'constantini'),
    'centrality_type': ('degree', 'betweenness'), 'flag': (0, 1, 2, 3), 'qtype': ('sta', 'pos', 'smp', 'gja', 'neg'), 'gamma': (1, 0.8, 1.3),
    'has_memory': (False, True), 'klevel': (None, 2, 3), 'tail': ('both', 'left', 'right'), 'type_clustering': ('single', 'complete'),
}


def public_functions():
    out = []
    for name in sorted(dir(bct)):
        f = getattr(bct, name)
        if isinstance(f, types.FunctionType) and not name.startswith('_') and f.__module__.startswith('bct') and name not in EXCLUDED:
            out.append(name)
    return out


def kind_of(fname):
    n = fname
    signed = '_sign' in n or n in ('randmio_und_signed', 'randmio_dir_signed')
    directed = any(t in n for t in ('_bd', '_wd', '_dir', 'dir_')) or n in ('erange', 'flow_coef_bd', 'jdegree', 'findpaths', 'findwalks', 'breadth',
                                                                           'breadthdist', 'reachdist', 'pagerank_centrality', 'matching_ind', 'motif3funct_bin',
                                                                           'motif3funct_wei', 'motif3struct_bin', 'motif3struct_wei', 'motif4funct_bin',
                                                                           'motif4funct_wei', 'motif4struct_bin', 'motif4struct_wei')
    binary = any(t in n for t in ('_bu', '_bd', '_bin', 'kcore', 'randomizer_bin')) or n in ('breadth', 'breadthdist', 'reachdist', 'findpaths', 'findwalks',
                                                                                              'clique_communities', 'get_components', 'get_components_old',
                                                                                              'number_of_components', 'subgraph_centrality', 'gtom', 'matching_ind',
                                                                                              'matching_ind_und', 'density_und', 'density_dir', 'jdegree', 'erange')
    return signed, directed, binary


def matrix(rnd, n, signed, directed, binary, diag, dens=None):
    dens = dens if dens is not None else rnd.choice((0.4, 0.6, 0.8))
    W = np.zeros((n, n))
    for a in range(n):
        for b in range(n):
            if a == b or (not directed and b < a):
                continue
            if rnd.random() < dens:
                w = 1.0 if binary else (float(rnd.randint(1, 6)) if rnd.random() < 0.5 else round(rnd.uniform(0.1, 1.0), 4))
                if signed and rnd.random() < 0.4:
                    w = -w
                W[a, b] = w
                if not directed:
                    W[b, a] = w
    if diag:
        for a in range(n):
            if rnd.random() < 0.7:
                W[a, a] = 1.0 if binary else float(rnd.randint(1, 4))
                if signed and rnd.random() < 0.5:
                    W[a, a] = -float(rnd.randint(1, 2))  # signed self-weights (they may cancel: trace 0 with a non-empty diagonal)
        if signed and not binary and rnd.random() < 0.15:
            for a in range(n):
                W[a, a] = 0.0
            a, b = rnd.sample(range(n), 2)
            W[a, a], W[b, b] = 1.0, -1.0
    return W


def retype(rnd, W):
    """the caller's container type is part of 'all argument arrays': bool / integer / float32 matrices take other code paths"""
    r = rnd.random()
    vals = np.unique(W)
    if r < 0.12 and set(vals.tolist()) <= {0.0, 1.0}:
        return W.astype(bool)
    if r < 0.24 and np.all(W == np.round(W)):
        return W.astype(rnd.choice((np.int64, np.int32, np.int8, np.int16)))  # every integer type the library itself casts to, and narrower
    if r < 0.30:
        return W.astype(np.float32)
    if r < 0.42:
        return np.asfortranarray(W)  # column-major, as loaded from MATLAB files
    if r < 0.47 and W.ndim == 2:
        return W.T.copy().T  # a transposed view: F-contiguous, does not own its data
    if r < 0.52 and W.ndim == 2:
        big = np.zeros((2 * W.shape[0], 2 * W.shape[1]), dtype=W.dtype)
        big[::2, ::2] = W
        return big[::2, ::2]  # a strided, non-contiguous view
    return W


NO_RETYPE = ('nbs_bct', 'generative_model', 'evaluate_generative_model', 'retrieve_shortest_path', 'cycprob')


def relayout(rnd, W):
    if not (isinstance(W, np.ndarray) and W.ndim == 2 and W.shape[0] == W.shape[1] and W.dtype == np.float64):
        return W
    r = rnd.random()
    if r < 0.15:
        return np.asfortranarray(W)
    if r < 0.2:
        return W.T.copy().T
    return W


def labels(rnd, n):
    k = rnd.randint(2, 3)
    base = [rnd.randrange(k) for _ in range(n)]
    style = rnd.choice(('odd', 'zero', 'big', 'contig'))
    if style == 'odd':
        m = {0: 3, 1: 7, 2: 12}
    elif style == 'zero':
        m = {0: 0, 1: 1, 2: 2}
    elif style == 'big':
        m = {0: 100, 1: 5, 2: 42}
    else:
        m = {0: 1, 1: 2, 2: 3}
    return np.array([m[b] for b in base])


def synth(fname, rnd):
    """returns (args list, kwargs dict) or None if the function's parameters are not understood."""
    f = getattr(bct, fname)
    sig = inspect.signature(f)
    signed, directed, binary = kind_of(fname)
    n = rnd.randint(5, 7)
    diag = rnd.random() < 0.6
    args = []
    kwargs = {}
    ov = OVERRIDES.get(fname)
    if ov is not None:
        a, k = ov(rnd, n)
        if fname not in NO_RETYPE:
            # memory layout of square float64 matrices is varied here too (dtype is left to the override: many of these
            # functions need a particular one)
            a = [relayout(rnd, x) for x in a]
        return a, k
    for pname, par in sig.parameters.items():
        if pname == 'seed':
            continue
        has_default = par.default is not inspect._empty
        val = None
        if pname in MATRIX_NAMES:
            # one call in eight hands a weighted matrix (weights 0.05..1) to a routine documented for binary input
            val = retype(rnd, matrix(rnd, n, signed, directed, binary and rnd.random() > 0.125, diag))
            if val.dtype == np.float64 and rnd.random() < DUST:
                val = _dust(rnd, val, directed)
            x = rnd.random()
            if x > 0.96 and val.dtype == np.float64 and not binary:
                val = val.copy()
                val[(val == 0) & ~np.eye(len(val), dtype=bool)] = np.inf  # a length matrix computed as 1 / W: absent connections are inf
            if x < 0.08:
                val = (val != 0)  # a boolean mask handed to a routine whatever its name says (retype() makes bool only from 0/1 matrices)
            elif x < 0.13 and val.dtype == np.float64 and np.abs(val).max() > 0:
                val = val / np.abs(val).max()  # pre-normalised weights: the largest magnitude is exactly 1
        elif pname in VECTOR_LABEL_NAMES:
            if has_default and rnd.random() < 0.3:
                continue
            val = labels(rnd, n)
        elif pname == 'copy':
            kwargs['copy'] = rnd.random() < 0.5
            continue
        elif has_default and isinstance(par.default, bool) and pname != 'verbose':
            kwargs[pname] = rnd.random() < 0.5  # option flags select code paths with their own writes
            continue
        elif has_default and pname in OPTION_VALUES:
            kwargs[pname] = rnd.choice(OPTION_VALUES[pname])
            continue
        elif has_default:
            continue
        elif pname in ('thr',):
            val = rnd.choice((0.3, 1.0, 2.0))
        elif pname in ('p',):
            val = rnd.choice((0.2, 0.5, 1.0))
        elif pname in ('k', 's', 'klevel'):
            val = rnd.randint(1, 3)
        elif pname in ('itr', 'maxswap', 'nr_steps', 'qmax', 'reps'):
            val = rnd.randint(1, 2)
        elif pname in ('alpha', 'tau', 'd', 'lamb', 'gamma', 'cq_thr'):
            val = rnd.choice((0.5, 0.85, 1)) if pname != 'cq_thr' else 3
        elif pname in ('source', 's', 't'):
            val = rnd.randrange(n)
        elif pname == 'avgdeg':
            val = 2
        elif pname == 'wcm':
            val = rnd.choice(('binarize', 'lengths', 'normalize'))
        elif pname == 'sources':
            val = np.array([0, 1])
        elif pname == 'wts':
            val = np.array([0.5, 1.0, 2.0])
        else:
            return None
        if isinstance(val, (int, float)) and not isinstance(val, bool) and rnd.random() < ZERO_D:
            val = np.array(val)  # a number taken out of an array (np.nditer, a parameter grid): a 0-d array is an array too
        if has_default:
            kwargs[pname] = val
        else:
            args.append(val)
    return args, kwargs


def _dust(rnd, W, directed):
    """rounding dust: 1-3 empty cells hold +-1e-17..1e-11, as matrices do that come out of a floating-point pipeline
    (a difference of two estimates, a thresholded correlation matrix); several routines treat weights above -1e-10 as
    non-negative on purpose"""
    W = W.copy()
    zi, zj = np.nonzero((W == 0) & ~np.eye(len(W), dtype=bool))
    if not len(zi):
        return W
    for _ in range(rnd.randint(1, 3)):
        x = rnd.randrange(len(zi))
        v = rnd.choice((-1, -1, 1)) * 10.0 ** rnd.randint(-17, -11)
        W[zi[x], zj[x]] = v
        if not directed:
            W[zj[x], zi[x]] = v
    return W


def _clouvain(rnd, n):
    """community_louvain with its objective named (a matrix under the name B would be taken for a custom objective, which the
    routine cannot digest at all): unsigned / binary / signed input as the objective requires, rounding dust now and then"""
    B = rnd.choice(('modularity', 'modularity', 'potts', 'negative_sym', 'negative_asym'))
    directed = rnd.random() < 0.3
    W = matrix(rnd, n, B.startswith('negative'), directed, B == 'potts', rnd.random() < 0.5)
    if B == 'modularity':
        W = retype(rnd, W)
    if W.dtype == np.float64 and B in ('modularity', 'potts') and rnd.random() < 0.3:
        W = _dust(rnd, W, directed)
    kw = {'B': B, 'gamma': rnd.choice((1, 0.8, 1.3))}
    if rnd.random() < 0.5:
        kw['ci'] = labels(rnd, n)
    return [W], kw


def _latD(rnd, n, directed):
    """the optional distance matrix of the latticisers is a caller-owned array too: absent, the ring distance, a random one,
    or - as people store symmetric tables - only its upper triangle; float64 or integer"""
    x = rnd.random()
    if x < 0.3:
        return None
    idx = np.arange(n)
    D = np.minimum(np.abs(idx[:, None] - idx[None, :]), n - np.abs(idx[:, None] - idx[None, :])).astype(float)
    if x < 0.5:
        pass
    elif x < 0.75:
        D = np.array([[round(rnd.uniform(0, 5), 3) for _ in range(n)] for _ in range(n)])
        if not directed:
            D = (D + D.T) / 2
    else:
        D = np.triu(D, 1)
    if rnd.random() < 0.2:
        D = np.round(D).astype(np.int64)
    return D


def _sparse(rnd, n):
    """a scipy sparse weighted matrix (counts 1..5) in one of the dtypes users store them in, for the one routine that takes one"""
    W = matrix(rnd, n, False, rnd.random() < 0.5, False, rnd.random() < 0.4)
    W = np.round(W * 5)
    dt = rnd.choice((np.int16, np.int16, np.int32, np.int64, np.float64, np.float32))
    M = rnd.choice((sp.csr_matrix, sp.csr_matrix, sp.csc_matrix))(W.astype(dt))
    return [M, labels(rnd, n)], {'degree': rnd.choice(('undirected', 'in', 'out'))}


def _cis(rnd, n):
    return np.array([labels(rnd, n) for _ in range(3)]).T


def _nbs(rnd, n):
    from scenarios.c19 import gen_stacks
    x, y, paired, _ = gen_stacks(rnd, 5)
    if x.dtype.kind == 'f' and rnd.random() < 0.25:
        # the diagonal of a stack of Fisher-z / correlation matrices is inf or nan; NBS never reads it
        v = rnd.choice((np.inf, np.nan))
        for a in (x, y):
            for i in range(a.shape[0]):
                a[i, i, :] = v
    return [x, y, rnd.choice((1.0, 2.0))], {'k': 3, 'paired': paired}


def _genmodel(rnd, n, evaluate=False):
    from sim.registry import _genmodel as g, _evalgen as e
    a, kw = (e if evaluate else g)(rnd)
    a = list(a)
    a[3] = np.array(a[3])
    kw['gamma'] = np.array(kw['gamma'])
    return a, kw


OVERRIDES = {
    'agreement': lambda r, n: ([_cis(r, n)], {}),
    'agreement_weighted': lambda r, n: ([_cis(r, n), np.array([0.5, 1.0, 2.0])], {}),
    'dummyvar': lambda r, n: ([_cis(r, n)], {}),
    'ci2ls': lambda r, n: ([labels(r, n)], {}),
    'ls2ci': lambda r, n: ([[[0, 1], [2, 3, 4]]], {'zeroindexed': True}),
    'grid_communities': lambda r, n: ([labels(r, n)], {}),
    'partition_distance': lambda r, n: ([labels(r, n), labels(r, n)], {}),
    'consensus_und': lambda r, n: (lambda D: ([(D + D.T) / 2, r.choice((0, 0.0, 0.3, 0.5))], {'reps': 2}))(matrix(r, n, False, False, False, r.random() < 0.6) / 6.0),
    'charpath': lambda r, n: ([_distmat(r, n)], {'include_diagonal': r.random() < 0.5, 'include_infinite': r.random() < 0.5}),
    'rout_efficiency': lambda r, n: ([_distmat(r, n)], {'transform': r.choice((None, 'inv'))}),
    'cycprob': lambda r, n: ([np.round(np.array([[[r.random() for _ in range(3)] for _ in range(n)] for _ in range(n)]) * 3)], {}),
    'find_motif34': lambda r, n: ([r.randint(1, 13), 3], {}),
    'findpaths': lambda r, n: ([matrix(r, n, False, True, True, False, dens=0.3), 2, np.array([0, 1])], {}),
    'navigation_wu': lambda r, n: ([matrix(r, n, False, False, False, True), matrix(r, n, False, False, False, True, dens=1.0)], {}),
    'retrieve_shortest_path': lambda r, n: ([0, n - 1, np.ones((n, n)), np.tile(np.arange(n), (n, 1))], {}),
    'pagerank_centrality': lambda r, n: ([matrix(r, n, False, True, False, True), 0.85], {'falff': r.choice((None, np.ones(n)))}),
    'resource_efficiency_bin': lambda r, n: _reseff(r, n),
    'rentian_scaling': lambda r, n: ([matrix(r, n, False, False, True, True), np.array([[r.uniform(0, 9) for _ in range(3)] for _ in range(n)]), 3], {}),
    'randomize_graph_partial_und': lambda r, n: (lambda: ([_ring(8, r), _mask(8, r), 1], {}))(),
    'makerandCIJdegreesfixed': lambda r, n: ([np.array([1, 2, 1, 2, 1]), np.array([2, 1, 2, 1, 1])], {}),
    'makeevenCIJ': lambda r, n: ([8, 20, 2], {}),
    'makefractalCIJ': lambda r, n: ([3, 2, 2], {}),
    'makerandCIJ_dir': lambda r, n: ([6, 8], {}),
    'makerandCIJ_und': lambda r, n: ([6, 5], {}),
    'makeringlatticeCIJ': lambda r, n: ([6, 9], {}),
    'maketoeplitzCIJ': lambda r, n: ([6, 6, 1.5], {}),
    'pick_four_unique_nodes_quickly': lambda r, n: ([6], {}),
    'nbs_bct': _nbs,
    'generative_model': lambda r, n: _genmodel(r, n),
    'evaluate_generative_model': lambda r, n: _genmodel(r, n, True),
    'reorderMAT': lambda r, n: ([matrix(r, n, False, False, False, True)], {'H': 20}),
    'reorder_matrix': lambda r, n: ([matrix(r, n, False, False, False, True)], {'H': 20}),
    'align_matrices': lambda r, n: ([matrix(r, n, False, False, False, True), matrix(r, n, False, False, False, True)], {'H': 20}),
    'reorder_mod': lambda r, n: ([matrix(r, n, False, False, False, True), labels(r, n)], {}),
    'backbone_wu': lambda r, n: ([matrix(r, n, False, False, False, True, dens=0.9), 2], {}),
    'core_periphery_dir': lambda r, n: ([matrix(r, n, False, True, False, True)], ({'C0': np.array([r.randrange(2) for _ in range(n)])} if r.random() < 0.2 else {})),
    'search_information': lambda r, n: ([matrix(r, n, False, False, False, True, dens=0.9)], {'transform': r.choice((None, 'inv'))}),
    'distance_wei_floyd': lambda r, n: ([matrix(r, n, False, r.random() < 0.5, False, True)], {'transform': r.choice((None, 'inv', 'log'))}),
    'path_transitivity': lambda r, n: ([matrix(r, n, False, False, False, True, dens=0.9)], {'transform': r.choice((None, 'inv'))}),
    'mean_first_passage_time': lambda r, n: ([matrix(r, n, False, False, False, True, dens=0.9)], {}),
    'diffusion_efficiency': lambda r, n: ([matrix(r, n, False, False, False, True, dens=0.9)], {}),
    'randmio_und_connected': lambda r, n: ([_ring(7, r), 1], {}),
    'latmio_und_connected': lambda r, n: ([_ring(7, r), 1], {'D': _latD(r, 7, False)}),
    'latmio_und': lambda r, n: ([_ring(7, r), 1], {'D': _latD(r, 7, False)}),
    'latmio_dir': lambda r, n: ([_dring(7, r), 1], {'D': _latD(r, 7, True)}),
    'randmio_dir_connected': lambda r, n: ([_dring(7, r), 1], {}),
    'latmio_dir_connected': lambda r, n: ([_dring(7, r), 1], {'D': _latD(r, 7, True)}),
    'randomizer_bin_und': lambda r, n: ([(_ring(8, r) != 0).astype(float), 1], {}),
    'null_model_und_sign': lambda r, n: ([matrix(r, n, True, False, False, True, dens=0.8)], {'bin_swaps': 1, 'wei_freq': r.choice((0.3, 1))}),
    'null_model_dir_sign': lambda r, n: ([matrix(r, n, True, True, False, True, dens=0.8)], {'bin_swaps': 1, 'wei_freq': r.choice((0.3, 1))}),
    'autofix': lambda r, n: ([_dirty(r, n)], {'copy': r.random() < 0.6}),
    'participation_coef_sparse': lambda r, n: _sparse(r, n),
    'community_louvain': _clouvain,
    'logtransform': lambda r, n: ([np.array([[round(r.uniform(0.05, 1.0), 4) for _ in range(n)] for _ in range(n)])], {'copy': r.random() < 0.5}),
    'threshold_proportional': lambda r, n: ([np.abs(matrix(r, n, False, r.random() < 0.5, False, True)), r.choice((0.2, 0.5, 1.0))], {'copy': r.random() < 0.5}),
}


def _reseff(rnd, n):
    adj = matrix(rnd, n, False, False, True, False, dens=0.7)
    kw = {}
    x = rnd.random()
    if x < 0.6:
        # the optional pre-computed arguments (shortest path lengths, transition matrix) are caller-owned arrays too
        k = adj.sum(axis=1, keepdims=True)
        k[k == 0] = 1
        kw['m'] = adj / k
        if x < 0.3:
            try:
                kw['spl'] = np.array(bct.distance_wei_floyd(adj)[0], dtype=float)
            except Exception:
                pass
    return [adj, rnd.choice((0.3, 0.5, 0.9))], kw


def _dirty(rnd, n):
    """what autofix exists for: a matrix with inf / nan entries, a stray diagonal, slight asymmetry"""
    W = matrix(rnd, n, rnd.random() < 0.3, rnd.random() < 0.3, False, rnd.random() < 0.4)
    kind = rnd.choice(('posinf', 'posinf', 'neginf', 'bothinf', 'nan', 'naninf', 'clean'))
    cells = [(rnd.randrange(n), rnd.randrange(n)) for _ in range(rnd.randint(1, 3))]
    for (a, b) in cells:
        if a == b:
            continue
        if kind == 'posinf':
            W[a, b] = np.inf
        elif kind == 'neginf':
            W[a, b] = -np.inf
        elif kind == 'bothinf':
            W[a, b] = np.inf if rnd.random() < 0.5 else -np.inf
        elif kind == 'nan':
            W[a, b] = np.nan
        elif kind == 'naninf':
            W[a, b] = np.nan if rnd.random() < 0.5 else np.inf
    if rnd.random() < 0.3:
        W = 1.0 / np.where(W == 0, 0.0, W) if False else W
    return W


def _distmat(rnd, n):
    D = matrix(rnd, n, False, True, False, True, dens=rnd.choice((0.6, 1.0)))
    D[D == 0] = np.inf  # unreachable pairs
    if rnd.random() < 0.5:
        np.fill_diagonal(D, 0)
    return D


def _ring(n, rnd):
    A = np.zeros((n, n))
    for a in range(n):
        w = float(rnd.randint(1, 5))
        A[a, (a + 1) % n] = A[(a + 1) % n, a] = w
    a, b = rnd.sample(range(n), 2)
    if A[a, b] == 0:
        A[a, b] = A[b, a] = 2.0
    return A


def _dring(n, rnd):
    A = np.zeros((n, n))
    for a in range(n):
        A[a, (a + 1) % n] = float(rnd.randint(1, 5))
    for _ in range(3):
        a, b = rnd.sample(range(n), 2)
        A[a, b] = float(rnd.randint(1, 5))
    return A


def _mask(n, rnd):
    B = np.zeros((n, n))
    for _ in range(rnd.randint(1, 3)):
        a, b = rnd.sample(range(n), 2)
        B[a, b] = 1.0
        if rnd.random() < 0.6:
            B[b, a] = 1.0  # (a one-sided mask is unusual for an undirected graph, but it is still the caller's array)
    x = rnd.random()
    if x < 0.35:
        return B.astype(bool)
    if x < 0.5:
        return B.astype(np.int64)
    return B


def snapshot(args, kwargs):
    def snap(v):
        if isinstance(v, np.ndarray):
            return ('arr', v.copy(), v.dtype, v.shape)
        if isinstance(v, list):
            return ('list', [snap(x) for x in v])
        if sp.issparse(v):
            return ('sparse', [np.array(getattr(v, a)) for a in ('data', 'indices', 'indptr')], v.dtype, v.shape, v.format)
        return ('other', None)
    return [snap(a) for a in args], {k: snap(v) for k, v in kwargs.items()}


def diff(snap, v, path):
    kind = snap[0]
    if kind == 'arr':
        if not isinstance(v, np.ndarray) or v.dtype != snap[2] or v.shape != snap[3]:
            return '%s changed dtype/shape: %s%s -> %s%s' % (path, snap[2], snap[3], getattr(v, 'dtype', '?'), getattr(v, 'shape', '?'))
        if not np.array_equal(v, snap[1], equal_nan=(v.dtype.kind in 'fc')):
            idx = np.argwhere(~((v == snap[1]) | ((v != v) & (snap[1] != snap[1])))) if v.dtype.kind in 'fc' else np.argwhere(v != snap[1])
            first = tuple(idx[0].tolist()) if len(idx) else ()
            ondiag = bool(len(idx)) and all(len(set(i.tolist())) == 1 for i in idx) and v.ndim == 2
            return '%s modified at %d cell(s)%s, e.g. %s: %r -> %r' % (path, len(idx), ' (all on the diagonal)' if ondiag else '', first,
                                                                      snap[1][first] if len(idx) else None, v[first] if len(idx) else None)
    elif kind == 'sparse':
        if not sp.issparse(v) or v.dtype != snap[2] or v.shape != snap[3] or v.format != snap[4]:
            return '%s (sparse) changed dtype/shape/format: %s%s -> %s%s' % (path, snap[2], snap[3], getattr(v, 'dtype', '?'), getattr(v, 'shape', '?'))
        for a, old in zip(('data', 'indices', 'indptr'), snap[1]):
            new = np.asarray(getattr(v, a))
            if new.shape != old.shape or not np.array_equal(new, old):
                return '%s (sparse) .%s modified: %s -> %s' % (path, a, old.tolist()[:8], new.tolist()[:8])
    elif kind == 'list':
        if not isinstance(v, list) or len(v) != len(snap[1]):
            return '%s list changed length' % path
        for i, (s, x) in enumerate(zip(snap[1], v)):
            d = diff(s, x, '%s[%d]' % (path, i))
            if d:
                return d
    return None


def compare(snaps, args, kwargs, names):
    sa, sk = snaps
    for i, (s, v) in enumerate(zip(sa, args)):
        d = diff(s, v, names[i] if i < len(names) else 'arg%d' % i)
        if d:
            return d, i
    for k, s in sk.items():
        d = diff(s, kwargs[k], k)
        if d:
            return d, k
    return None, None
