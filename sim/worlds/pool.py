"""In-process stand-in for multiprocessing.Pool, used to simulate bct.nbs_parallel.

What is real: the task function, the task tuples built by the library, pickling of every task and every
result (so a worker's write to its copy of an array cannot reach the parent: process isolation is
modelled, which is exactly what a naive in-process fake would hide).
What is simulated: which worker holds which chunk of tasks, and which worker runs next (seeded
scheduler); results come back in submission order, as Pool.map guarantees.  Real processes are never
started: their interleaving would not be ours to decide.
"""
import pickle
import random


class TaskError(Exception):
    pass


class FakePool(object):
    def __init__(self, mp, workers):
        self.mp = mp
        self.workers = max(1, int(workers))
        self.closed = False
        mp.pools.append(self)

    def map(self, fn, iterable, chunksize=None):
        mp = self.mp
        tasks = list(iterable)
        n = len(tasks)
        if chunksize is None:
            chunksize = mp.chunksize or max(1, -(-n // (4 * self.workers)))
        chunks = [list(range(s, min(n, s + chunksize))) for s in range(0, n, chunksize)]
        # multiprocessing pickles one CHUNK of tasks at a time: objects shared by the task tuples of a chunk (the same
        # ndarray passed to every task) arrive in the worker as ONE object per chunk, not one per task
        chunk_blob = {c[0]: pickle.dumps([tasks[i] for i in c], protocol=pickle.HIGHEST_PROTOCOL) for c in chunks}
        unpacked = {}
        # chunks are handed to whichever worker asks next; model that by a seeded assignment
        queues = [[] for _ in range(self.workers)]
        for c in chunks:
            queues[mp.rnd.randrange(self.workers)].append(c)
        results = [None] * n
        order = []
        active = [w for w in range(self.workers) if queues[w]]
        current = {}
        while active:
            w = mp.rnd.choice(active)
            if w not in current or not current[w]:
                current[w] = list(queues[w].pop(0))
            idx = current[w].pop(0)
            mp.running_task = idx
            if idx not in unpacked:
                head = [c for c in chunks if idx in c][0]
                for i, t in zip(head, pickle.loads(chunk_blob[head[0]])):
                    unpacked[i] = t
            args = unpacked.pop(idx)
            if mp.fail_task is not None and idx == mp.fail_task:
                mp.running_task = None
                raise TaskError('injected failure of task %d' % idx)
            r = fn(args)
            results[idx] = pickle.loads(pickle.dumps(r, protocol=pickle.HIGHEST_PROTOCOL))
            mp.running_task = None
            order.append(idx)
            if not current[w] and not queues[w]:
                active.remove(w)
        mp.order = order
        mp.maps += 1
        return results

    def close(self):
        self.closed = True

    def join(self):
        pass

    def terminate(self):
        self.closed = True


class FakeMP(object):
    """replaces the name `multiprocessing` inside bct.nbs_parallel for one run."""

    def __init__(self, seed, cpu=4, chunksize=None, fail_task=None):
        self.rnd = random.Random(seed)
        self.cpu = cpu
        self.chunksize = chunksize
        self.fail_task = fail_task
        self.pools = []
        self.order = []
        self.maps = 0
        self.running_task = None

    def cpu_count(self):
        return self.cpu

    def Pool(self, processes=None, *a, **k):
        return FakePool(self, processes or self.cpu)

    def out_of_order(self):
        return self.order != sorted(self.order)
