"""Named structural predicates used by known_findings.json entries: (case, violation) -> bool."""
import numpy as np

from .util import dec


def _W(case):
    return dec(case['W'])


PREDICATES = {
    'any': lambda case, v: True,
    'directed_input': lambda case, v: not np.array_equal(_W(case), _W(case).T),
    'reached_level_2': lambda case, v: ((v.get('info') or {}).get('maxlevel') or 0) >= 2,
    'gamma_ne_1': lambda case, v: abs(case['params'].get('gamma', 1) - 1) > 1e-12,
}
