"""Named structural predicates used by known_findings.json entries: (case, violation) -> bool."""
import numpy as np

from .util import dec


def _W(case):
    return dec(case['W'])


PREDICATES = {
    'any': lambda case, v: True,
    'directed_input': lambda case, v: not np.array_equal(_W(case), _W(case).T),
    'reached_level_2': lambda case, v: ((v.get('info') or {}).get('maxlevel') or 0) >= 2,
    # all connections (self-weights aside) share one weight whose rounding noise is not small against the routines' absolute
    # 1e-10 gain threshold: weight >= 1e6 in float64 (eps 2.2e-16), weight >= 1e-3 in float32 (eps 1.2e-7)
    'uniform_large_weights': lambda case, v: (lambda W, O: O.size > 0 and len(np.unique(O)) == 1
                                              and float(O.max()) >= (1e-3 if W.dtype == np.float32 else 1e6))(
        _W(case), (lambda W: np.abs(W[(W != 0) & ~np.eye(len(W), dtype=bool)]))(_W(case))),
    'narrow8_R_and_D': lambda case, v: bool((case.get('meta') or {}).get('narrow8')),
    # 8-bit integer matrices (any optimiser), or unsigned integer matrices of any width in the Louvain routines
    'narrow8_W': lambda case, v: (bool((case.get('meta') or {}).get('narrow8')) and _W(case).dtype.itemsize == 1)
    or (_W(case).dtype.kind == 'u' and str(v.get('routine', '')).startswith('modularity_louvain')),
    'gamma_ne_1': lambda case, v: abs(case['params'].get('gamma', 1) - 1) > 1e-12,
}
