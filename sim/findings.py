"""Named structural predicates used by known_findings.json entries: (case, violation) -> bool."""
import numpy as np

from .util import dec


def _W(case):
    return dec(case['W'])


PREDICATES = {
    'any': lambda case, v: True,
    'directed_input': lambda case, v: not np.array_equal(_W(case), _W(case).T),
    'reached_level_2': lambda case, v: ((v.get('info') or {}).get('maxlevel') or 0) >= 2,
    # all connections (self-weights aside) share one weight >= 1e6
    'uniform_large_weights': lambda case, v: (lambda O: O.size > 0 and float(O.max()) >= 1e6 and len(np.unique(O)) == 1)(
        (lambda W: np.abs(W[(W != 0) & ~np.eye(len(W), dtype=bool)]))(_W(case))),
    'gamma_ne_1': lambda case, v: abs(case['params'].get('gamma', 1) - 1) > 1e-12,
}
