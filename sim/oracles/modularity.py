"""Reference modularity from its definition, O(n^2), no bct import. See DESIGN Appendix A."""
import numpy as np


def _same(ci):
    ci = np.asarray(ci)
    return ci[:, None] == ci[None, :]


def q_dir(W, ci, gamma=1.0):
    """Q = sum_ij [W_ij - gamma*ko_i*ki_j/s] delta(ci,cj) / s   (covers undirected, ko == ki, and self-weights)."""
    W = np.asarray(W, dtype=float)
    s = W.sum()
    ko = W.sum(axis=1)
    ki = W.sum(axis=0)
    return float(((W - gamma * np.outer(ko, ki) / s) * _same(ci)).sum() / s)


def q_sign(W, ci, gamma=1.0, qtype='sta'):
    W = np.asarray(W, dtype=float)
    Wp = W * (W > 0)
    Wn = -W * (W < 0)
    sp, sn = Wp.sum(), Wn.sum()
    same = _same(ci)

    def part(X, s):
        if s == 0:
            return 0.0
        return float(((X - gamma * np.outer(X.sum(axis=1), X.sum(axis=0)) / s) * same).sum())
    Qp, Qn = part(Wp, sp), part(Wn, sn)
    tot = sp + sn
    if qtype == 'sta':
        d0, d1 = (1 / sp if sp else 0), (1 / tot if tot else 0)
    elif qtype == 'pos':
        d0, d1 = (1 / sp if sp else 0), 0
    elif qtype == 'smp':
        d0, d1 = (1 / sp if sp else 0), (1 / sn if sn else 0)
    elif qtype == 'gja':
        d0, d1 = (1 / tot if tot else 0), (1 / tot if tot else 0)
    elif qtype == 'neg':
        d0, d1 = 0, (1 / sn if sn else 0)
    else:
        raise KeyError(qtype)
    if not sp:
        d0 = 0
    if not sn:
        d1 = 0
    return d0 * Qp - d1 * Qn


def valid_partition(ci, n):
    """one integer label per node, labels exactly 1..k; returns None or a message."""
    a = np.asarray(ci)
    if a.shape != (n,):
        return 'label vector has shape %s, expected (%d,)' % (a.shape, n)
    if a.dtype.kind not in 'iu':
        if a.dtype.kind == 'f' and np.all(a == np.round(a)):
            return 'labels are floats, not integers (dtype %s)' % a.dtype
        return 'labels are not integers (dtype %s)' % a.dtype
    u = np.unique(a)
    if not np.array_equal(u, np.arange(1, len(u) + 1)):
        return 'labels are not exactly 1..k: %s' % u.tolist()
    return None
