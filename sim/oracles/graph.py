"""Independent graph oracles (no bct import): degrees, multisets, connectivity, ring distance."""
import numpy as np


def in_deg(X):
    return (np.asarray(X) != 0).sum(axis=0)


def out_deg(X):
    return (np.asarray(X) != 0).sum(axis=1)


def weights_multiset(X):
    X = np.asarray(X)
    return np.sort(X[X != 0], axis=None)


def same_multiset(X, Y):
    a, b = weights_multiset(X), weights_multiset(Y)
    return a.shape == b.shape and np.array_equal(a, b)


def is_symmetric(X):
    X = np.asarray(X)
    return np.array_equal(X, X.T)


def reach_from(adj, s):
    """BFS over boolean adjacency rows; returns boolean reached vector."""
    n = len(adj)
    seen = np.zeros(n, dtype=bool)
    seen[s] = True
    stack = [s]
    while stack:
        u = stack.pop()
        for v in np.nonzero(adj[u])[0]:
            if not seen[v]:
                seen[v] = True
                stack.append(int(v))
    return seen


def connected_und(X):
    A = (np.asarray(X) != 0)
    A = A | A.T
    return bool(reach_from(A, 0).all()) if len(A) else True


def strongly_connected(X):
    A = (np.asarray(X) != 0)
    np.fill_diagonal(A, False) if False else None
    return bool(reach_from(A, 0).all() and reach_from(A.T, 0).all()) if len(A) else True


def components_und(X):
    """labels 0..m-1 by BFS over the symmetrised support."""
    A = (np.asarray(X) != 0)
    A = A | A.T
    n = len(A)
    lab = -np.ones(n, dtype=int)
    c = 0
    for s in range(n):
        if lab[s] < 0:
            r = reach_from(A, s)
            lab[r] = c
            c += 1
    return lab


def ring_distance_matrix(n):
    idx = np.arange(n)
    d = np.abs(idx[:, None] - idx[None, :])
    return np.minimum(d, n - d).astype(float)


def two_disjoint_edges(X, directed):
    """Domain guard of C01: at least two vertex-disjoint edges exist."""
    A = (np.asarray(X) != 0)
    if not directed:
        A = np.triu(A | A.T, 1)
    else:
        A = A.copy()
        np.fill_diagonal(A, False)
    ii, jj = np.nonzero(A)
    m = len(ii)
    for x in range(m):
        a, b = ii[x], jj[x]
        ok = (ii != a) & (ii != b) & (jj != a) & (jj != b)
        if ok.any():
            return True
    return False
