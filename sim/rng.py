"""SimRNG: the scheduler, logical clock and fault point of the simulation.

A subclass *instance* of numpy.random.RandomState is handed to bct as `seed`; bct.utils.get_rng()
returns RandomState instances unchanged, so every random decision a routine takes (which two edges,
which flip, which node order, which relabelling) is a call into this object.  One draw = one event
of the run; the event sequence number is the logical clock.

Everything is derived from one integer (the run's sub-seed): the base MT19937 stream used for
"fair" draws and the private random.Random that drives the policy.  Logging draws nothing and reads
no clock.
"""
import hashlib
import random
import sys

import numpy as np

EPS = 2.0 ** -53
SCALAR_EDGE_VALUES = (EPS, 0.5, 0.5 + EPS, 1.0 - EPS, 0.25, 0.75)


BIG = 4096


class _Big(object):
    __slots__ = ('digest',)

    def __init__(self, digest):
        self.digest = digest

    def __repr__(self):
        return 'big:' + self.digest


class SimAbort(BaseException):
    """Injected fault: the generator 'fails' at draw k. BaseException so that a bare `except:` in
    library code cannot swallow it."""


class SimBudget(BaseException):
    """The run reached its draw budget (deterministic tick). Never a violation."""


class ReplayDiverged(BaseException):
    """Strict replay: the code asked for a draw that the recorded trace does not contain."""


def _jsonable(v):
    if isinstance(v, _Big):
        return {'big': v.digest}
    if isinstance(v, np.ndarray):
        return v.tolist()
    if isinstance(v, (np.integer,)):
        return int(v)
    if isinstance(v, (np.floating,)):
        return float(v)
    return v


def _norm_size(size):
    if size is None:
        return None
    if isinstance(size, (int, np.integer)):
        return (int(size),)
    return tuple(int(x) for x in size)


class Policy(object):
    """Decides, draw by draw, whether a value is forced and to what.

    spec = {'name': 'fair'|'collide'|'edge'|'mix', 'rate': float, 'burst': int, 'site_frac': float}
    At most a random subset of call sites is perturbed in one run; forced draws come in bounded
    bursts followed by a cool-down of fair draws, so legal rejection loops stay live.
    """

    def __init__(self, spec, seed):
        self.spec = dict(spec)
        self.name = spec.get('name', 'fair')
        self.rate = float(spec.get('rate', 0.15))
        self.burst_max = int(spec.get('burst', 6))
        self.site_frac = float(spec.get('site_frac', 0.7))
        self.rnd = random.Random(seed ^ 0x5bd1e995)
        self.sites = {}
        self.burst_left = 0
        self.cool = 0
        self.fired = {}

    def _site_on(self, site):
        on = self.sites.get(site)
        if on is None:
            on = self.rnd.random() < self.site_frac
            self.sites[site] = on
        return on

    def _fire(self, kind):
        self.fired[kind] = self.fired.get(kind, 0) + 1

    def force(self, method, arg, size, site, st):
        if self.name == 'fair':
            return None
        if not self._site_on(site):
            return None
        if self.burst_left > 0:
            self.burst_left -= 1
            if self.burst_left == 0:
                self.cool = self.rnd.randint(2, 2 * min(self.burst_max, 20) + 2)
        elif self.cool > 0:
            self.cool -= 1
            return None
        elif self.rnd.random() < self.rate:
            self.burst_left = self.rnd.randint(max(1, self.burst_max // 2 if self.burst_max > 20 else 1), self.burst_max) - 1
            if self.burst_left == 0:
                self.cool = self.rnd.randint(1, min(self.burst_max, 20))
        else:
            return None
        name = self.name
        if name == 'mix':
            name = self.rnd.choice(('collide', 'edge'))
        if name == 'collide' or site == 'pick_four_unique_nodes_quickly':
            # for the recursive picker the boundary values 0 and k-1 are collisions too: one capped code path for both
            return self._collide(method, arg, size, site, st)
        return self._edge(method, arg, size, site, st)

    # -- collide: repeated / colliding index draws -------------------------------------------
    def _collide(self, method, arg, size, site, st):
        rnd = self.rnd
        if method == 'randint':
            k = arg
            if site == 'pick_four_unique_nodes_quickly':
                n = int(round(k ** 0.25))
                # the picker is recursive: cap forced collisions at 30 in a row (depth 30 is legal and reachable; hundreds in a
                # row would only manufacture a RecursionError with probability ~0.9**400)
                self.pick4_run = getattr(self, 'pick4_run', 0) + 1
                if self.pick4_run > 30 and n >= 4 and n ** 4 == k:
                    self.pick4_run = 0
                    d = rnd.sample(range(n), 4)  # end the run with four distinct nodes
                    return d[0] + d[1] * n + d[2] * n ** 2 + d[3] * n ** 3
                if n >= 4 and n ** 4 == k:
                    d = [rnd.randrange(n) for _ in range(4)]
                    x, y = rnd.sample(range(4), 2)
                    d[y] = d[x]
                    self._fire('collide_pick_four')
                    return d[0] + d[1] * n + d[2] * n ** 2 + d[3] * n ** 3
            if size is None:
                el = st.edge_list
                prev = st.last_randint.get(k)
                if el is not None and prev is not None and len(el[0]) == k and rnd.random() < 0.6:
                    i, j = el
                    a, b = int(i[prev]), int(j[prev])
                    cand = [e for e in range(k) if e != prev and (int(i[e]) in (a, b) or int(j[e]) in (a, b))]
                    if cand:
                        self._fire('collide_shared_endpoint')
                        return rnd.choice(cand)
                if prev is not None:
                    self._fire('collide_repeat_index')
                    return prev
                return None
            n = int(np.prod(size))
            v = rnd.randrange(k)
            self._fire('collide_equal_pair')
            return np.full(size, v, dtype=np.int64)
        if method == 'permutation':
            prev = st.last_perm.get(arg)
            if prev is not None:
                self._fire('collide_repeat_permutation')
                return prev.copy()
            return None
        return self._edge(method, arg, size, site, st)

    # -- edge: boundary values ------------------------------------------------------------------
    def _edge(self, method, arg, size, site, st):
        rnd = self.rnd
        if method == 'randint':
            k = arg
            if size is None:
                self._fire('edge_index_extreme')
                return rnd.choice((0, k - 1))
            self._fire('edge_index_extreme')
            vals = [rnd.choice((0, k - 1)) for _ in range(int(np.prod(size)))]
            return np.array(vals, dtype=np.int64).reshape(size)
        if method in ('random_sample', 'rand'):
            if size is None:
                self._fire('edge_scalar_boundary')
                return rnd.choice(SCALAR_EDGE_VALUES)
            kind = rnd.choice(('low', 'high', 'checker', 'half'))
            self._fire('edge_array_' + kind)
            if kind == 'low':
                return np.full(size, EPS)
            if kind == 'high':
                return np.full(size, 1.0 - EPS)
            if kind == 'half':
                return np.full(size, 0.5)
            n = int(np.prod(size))
            a = np.where(np.arange(n) % 2 == 0, EPS, 1.0 - EPS)
            return a.reshape(size)
        if method == 'permutation':
            n = arg
            kind = rnd.choice(('identity', 'reverse', 'rotate', 'adjacent'))
            self._fire('edge_perm_' + kind)
            p = np.arange(n, dtype=np.int64)
            if kind == 'reverse':
                p = p[::-1].copy()
            elif kind == 'rotate' and n > 1:
                p = np.roll(p, rnd.randrange(1, n))
            elif kind == 'adjacent' and n > 1:
                x = rnd.randrange(n - 1)
                p[x], p[x + 1] = p[x + 1], p[x]
            return p
        return None


class _State(object):
    __slots__ = ('n', 'budget', 'abort_at', 'policy', 'replay', 'strict', 'events', 'edge_list',
                 'last_randint', 'last_perm', 'forced', 'opaque', 'diverged', 'sites', 'keep', 'inside', 'last_forced')


class SimRNG(np.random.RandomState):
    """See module docstring.  Parameters:
    seed      -- integer, seeds the base MT stream (fair draws) and the policy's private PRNG
    policy    -- Policy spec dict or None (fair)
    budget    -- max number of draws; the next one raises SimBudget
    abort_at  -- raise SimAbort when draw number abort_at is requested
    replay    -- recorded trace (list of [method, arg, size, value]); strict or lenient
    """

    def __init__(self, seed, policy=None, budget=200000, abort_at=None, replay=None, strict=True):
        seed = int(seed) & 0xffffffff
        super(SimRNG, self).__init__(seed)
        st = _State()
        st.n = 0
        st.budget = budget
        st.abort_at = abort_at
        st.policy = Policy(policy, seed) if policy and policy.get('name', 'fair') != 'fair' else None
        st.replay = replay
        st.strict = strict
        st.events = []
        st.edge_list = None
        st.last_randint = {}
        st.last_perm = {}
        st.forced = 0
        st.opaque = 0
        st.diverged = 0
        st.sites = {}
        st.keep = True
        st.last_forced = -1
        st.inside = False  # True while a base-class method runs (it may call other methods via self)
        self._st = st

    # RandomState instances are pickled by the worker-pool world; keep that cheap and faithful
    def __reduce__(self):
        return (_rebuild, (self.get_state(), self._st.budget))

    # -- bookkeeping ------------------------------------------------------------------------------
    @property
    def ndraws(self):
        return self._st.n

    @property
    def events(self):
        return self._st.events

    def fired(self):
        p = self._st.policy
        return dict(p.fired) if p else {}

    def publish_edge_list(self, i, j):
        """Called from the hook callback: live views of the routine's edge list (guides `collide`)."""
        self._st.edge_list = (i, j)

    def digest(self):
        h = hashlib.sha1()
        for e in self._st.events:
            h.update(repr(e).encode())
        return h.hexdigest()[:16]

    def trace(self):
        return [[m, a, list(s) if s is not None else None, _jsonable(v)] for (m, a, s, site, v) in self._st.events]

    def tail_draws(self):
        """number of draws made after the last forced one (None if nothing was forced): bounded-progress measure"""
        st = self._st
        return None if st.last_forced < 0 else st.n - st.last_forced - 1

    def site_counts(self):
        return dict(self._st.sites)

    # -- the draw ---------------------------------------------------------------------------------
    def _draw(self, method, arg, size, fair, cast):
        st = self._st
        if st.inside:
            return fair()
        seq = st.n
        if st.abort_at is not None and seq >= st.abort_at:
            raise SimAbort(seq)
        if seq >= st.budget:
            raise SimBudget(seq)
        site = sys._getframe(2).f_code.co_name
        v = None
        if st.replay is not None:
            if seq < len(st.replay):
                rm, ra, rs, rv = st.replay[seq]
                rs = tuple(rs) if rs is not None else None
                if rm == method and ra == arg and rs == size:
                    v = None if isinstance(rv, dict) and 'big' in rv else cast(rv)
                elif st.strict:
                    raise ReplayDiverged('draw %d: code asks %s(%r,%r), trace has %s(%r,%r)' % (seq, method, arg, size, rm, ra, rs))
                else:
                    st.diverged += 1
            elif st.strict:
                raise ReplayDiverged('draw %d: trace exhausted (%d recorded)' % (seq, len(st.replay)))
            else:
                st.diverged += 1
        elif st.policy is not None:
            f = st.policy.force(method, arg, size, site, st)
            if f is not None:
                v = cast(f)
                st.forced += 1
                st.last_forced = seq
        if v is None:
            st.inside = True
            try:
                v = fair()
            finally:
                st.inside = False
        st.n = seq + 1
        st.sites[site] = st.sites.get(site, 0) + 1
        if method == 'randint' and size is None:
            st.last_randint[arg] = v
        elif method == 'permutation':
            st.last_perm[arg] = v.copy()
        if isinstance(v, np.ndarray) and v.size > BIG:
            # very large draws (N x N uniforms for N in the hundreds) are logged by digest only; on replay they are
            # re-drawn from the base stream, which is deterministic because every earlier draw is replayed identically
            st.events.append((method, arg, size, site, _Big(hashlib.sha1(np.ascontiguousarray(v).tobytes()).hexdigest()[:16])))
        else:
            st.events.append((method, arg, size, site, v.copy() if isinstance(v, np.ndarray) else v))
        return v

    def randint(self, low, high=None, size=None, dtype=int):
        if high is not None or not isinstance(low, (int, np.integer)):
            return self._opaque('randint', super(SimRNG, self).randint, low, high, size, dtype)
        k = int(low)
        size = _norm_size(size)
        base = super(SimRNG, self).randint
        if size is None:
            return self._draw('randint', k, None, lambda: int(base(k)), lambda x: int(x) % k)
        return self._draw('randint', k, size, lambda: base(k, size=size),
                          lambda x: np.asarray(x, dtype=np.int64).reshape(size) % k)

    def random_sample(self, size=None):
        size = _norm_size(size)
        base = super(SimRNG, self).random_sample
        if size is None:
            return self._draw('random_sample', None, None, lambda: float(base()), float)
        return self._draw('random_sample', None, size, lambda: base(size),
                          lambda x: np.asarray(x, dtype=float).reshape(size))

    def rand(self, *args):
        if not args:
            return self.random_sample()
        size = tuple(int(a) for a in args)
        base = super(SimRNG, self).random_sample
        return self._draw('rand', None, size, lambda: base(size), lambda x: np.asarray(x, dtype=float).reshape(size))

    def permutation(self, x):
        if not isinstance(x, (int, np.integer)):
            return self._opaque('permutation', super(SimRNG, self).permutation, x)
        n = int(x)
        base = super(SimRNG, self).permutation
        if n <= 0:
            return base(n)  # what the real generator does with a non-positive count (an empty permutation): nothing to steer

        def cast(v):
            v = np.asarray(v, dtype=np.int64)
            if v.shape != (n,) or not np.array_equal(np.sort(v), np.arange(n)):
                raise ReplayDiverged('recorded permutation is not a permutation of %d' % n)
            return v.copy()
        return self._draw('permutation', n, None, lambda: base(n), cast)

    def _opaque(self, name, fn, *a):
        """Any other draw form: still deterministic (base MT stream), logged as opaque."""
        st = self._st
        if st.inside:
            return fn(*a)
        if st.abort_at is not None and st.n >= st.abort_at:
            raise SimAbort(st.n)
        if st.n >= st.budget:
            raise SimBudget(st.n)
        st.inside = True
        try:
            v = fn(*a)
        finally:
            st.inside = False
        st.n += 1
        st.opaque += 1
        st.events.append(('opaque:' + name, None, None, sys._getframe(2).f_code.co_name, _jsonable(v) if not isinstance(v, np.ndarray) else v.copy()))
        return v

    # the remaining RandomState API a refactor might reach for
    def choice(self, *a, **k):
        return self._opaque('choice', lambda: super(SimRNG, self).choice(*a, **k))

    def shuffle(self, x):
        return self._opaque('shuffle', lambda: super(SimRNG, self).shuffle(x))

    def randn(self, *a):
        return self._opaque('randn', lambda: super(SimRNG, self).randn(*a))

    def uniform(self, *a, **k):
        return self._opaque('uniform', lambda: super(SimRNG, self).uniform(*a, **k))

    def normal(self, *a, **k):
        return self._opaque('normal', lambda: super(SimRNG, self).normal(*a, **k))

    def random(self, size=None):
        return self.random_sample(size)


def _rebuild(state, budget):
    r = SimRNG(0, budget=budget)
    r.set_state(state)
    return r


def subseed(*parts):
    """One integer decides everything: sub-seed = first 8 hex digits of sha256('S:P:scenario:r')."""
    return int(hashlib.sha256(':'.join(str(p) for p in parts).encode()).hexdigest()[:8], 16)
