"""Input generators for the rewiring / null-model scenarios. Pure numpy + random.Random; no bct."""
import numpy as np

from .oracles import graph as G

FAMILIES = ('er_sparse', 'er_mid', 'er_dense', 'ring', 'ring_chords', 'clique_path', 'tree_chords',
            'two_cliques', 'near_complete', 'isolated', 'hub', 'bipartite', 'few_edges')
BRIDGE_RICH = ('ring', 'ring_chords', 'clique_path', 'tree_chords', 'two_cliques', 'er_sparse', 'hub')


def _und_support(rnd, n, family):
    A = np.zeros((n, n), dtype=bool)

    def add(a, b):
        if a != b:
            A[a, b] = A[b, a] = True

    if family.startswith('er') or family == 'isolated':
        p = {'er_sparse': 0.25, 'er_mid': 0.45, 'er_dense': 0.7, 'isolated': 0.4}[family]
        for a in range(n):
            for b in range(a + 1, n):
                if rnd.random() < p:
                    add(a, b)
        if family == 'isolated':
            for x in rnd.sample(range(n), max(1, n // 5)):
                A[x, :] = False
                A[:, x] = False
    elif family in ('ring', 'ring_chords'):
        for a in range(n):
            add(a, (a + 1) % n)
        if family == 'ring_chords':
            for _ in range(rnd.randint(1, max(1, n // 2))):
                add(rnd.randrange(n), rnd.randrange(n))
    elif family == 'clique_path':
        sz = rnd.randint(2, 4)
        blocks = [list(range(s, min(n, s + sz))) for s in range(0, n, sz)]
        for bl in blocks:
            for a in bl:
                for b in bl:
                    add(a, b)
        for x in range(len(blocks) - 1):
            add(blocks[x][-1], blocks[x + 1][0])
    elif family == 'tree_chords':
        for a in range(1, n):
            add(a, rnd.randrange(a))
        for _ in range(rnd.randint(0, 3)):
            add(rnd.randrange(n), rnd.randrange(n))
    elif family == 'two_cliques':
        h = n // 2
        for a in range(h):
            for b in range(h):
                add(a, b)
        for a in range(h, n):
            for b in range(h, n):
                add(a, b)
        add(h - 1, h)
    elif family == 'few_edges':
        # a handful of scattered connections (mean degree below 1/2): every rewiring attempt is the last permitted one
        for _ in range(rnd.randint(2, 4)):
            add(rnd.randrange(n), rnd.randrange(n))
    elif family == 'hub':
        # one hub joined to everybody plus a few leaf-leaf edges: almost every pair of edges shares the hub
        for a in range(1, n):
            add(0, a)
        for _ in range(rnd.randint(1, 3)):
            add(rnd.randrange(1, n), rnd.randrange(1, n))
    elif family == 'bipartite':
        h = rnd.randint(2, n - 2)
        for a in range(h):
            for b in range(h, n):
                if rnd.random() < 0.8:
                    add(a, b)
    elif family == 'near_complete':
        A[:] = True
        np.fill_diagonal(A, False)
        for _ in range(rnd.randint(1, max(2, n // 2))):
            a, b = rnd.randrange(n), rnd.randrange(n)
            if a != b:
                A[a, b] = A[b, a] = False
    # random relabelling so that no node position is special
    p = list(range(n))
    rnd.shuffle(p)
    A = A[np.ix_(p, p)]
    return A


def _dir_support(rnd, n, family):
    A = _und_support(rnd, n, family)
    if family in ('ring', 'ring_chords'):
        # a directed cycle (+ chords): strongly connected and bridge-rich
        B = np.zeros((n, n), dtype=bool)
        p = list(range(n))
        rnd.shuffle(p)
        for x in range(n):
            B[p[x], p[(x + 1) % n]] = True
        if family == 'ring_chords':
            for _ in range(rnd.randint(1, max(1, n // 2))):
                a, b = rnd.randrange(n), rnd.randrange(n)
                if a != b:
                    B[a, b] = True
        return B
    keep = rnd.choice((0.5, 0.7, 0.9))
    ii, jj = np.nonzero(np.triu(A, 1))
    B = np.zeros((n, n), dtype=bool)
    for a, b in zip(ii, jj):
        r = rnd.random()
        if r < keep * 0.5:
            B[a, b] = True
        elif r < keep:
            B[b, a] = True
        else:
            B[a, b] = B[b, a] = True
    return B


def weights_for(rnd, S, wkind, symmetric):
    n = len(S)
    W = np.zeros((n, n))
    ii, jj = np.nonzero(np.triu(S | S.T, 1) if symmetric else S)
    for a, b in zip(ii, jj):
        if wkind == 'bin':
            w = 1.0
        elif wkind == 'int':
            w = float(rnd.randint(1, 9))
        else:
            w = round(rnd.uniform(0.05, 1.0), 6)
        W[a, b] = w
        if symmetric:
            W[b, a] = w
    return W


def graph(rnd, n=None, family=None, directed=False, wkind=None, nmax=12, families=FAMILIES):
    n = n or rnd.randint(4, nmax)
    family = family or rnd.choice(families)
    wkind = wkind or rnd.choice(('bin', 'bin', 'int', 'int', 'float'))
    S = _dir_support(rnd, n, family) if directed else _und_support(rnd, n, family)
    W = weights_for(rnd, S, wkind, symmetric=not directed)
    return W, {'n': n, 'family': family, 'wkind': wkind, 'directed': directed}


def graph_in_domain(rnd, directed, tries=20, **kw):
    """C01 domain guard: empty diagonal, at least two vertex-disjoint edges."""
    for _ in range(tries):
        W, meta = graph(rnd, directed=directed, **kw)
        if G.two_disjoint_edges(W, directed):
            return W, meta
    n = kw.get('n') or 6
    W, meta = graph(rnd, n=max(n, 5), family='ring', directed=directed, wkind=kw.get('wkind'))
    return W, meta


def connected_graph(rnd, directed, tries=40, **kw):
    kw.setdefault('families', BRIDGE_RICH + ('er_mid', 'er_dense', 'near_complete'))
    for _ in range(tries):
        W, meta = graph(rnd, directed=directed, **kw)
        ok = G.strongly_connected(W) if directed else G.connected_und(W)
        if ok and G.two_disjoint_edges(W, directed):
            return W, meta
    return graph_in_domain(rnd, directed, family='ring_chords', n=kw.get('n'), wkind=kw.get('wkind'))


def signed_graph(rnd, directed, nmax=10):
    n = rnd.randint(4, nmax)
    dens = rnd.choice((0.4, 0.6, 0.8, 1.0))
    wkind = rnd.choice(('int', 'int', 'float', 'float', 'unit', 'bigint', 'unitc'))
    cmag = rnd.choice((0.5, 2.0, 3.0))  # 'unitc': every connection has the same magnitude c != 1
    scale = rnd.choice((1e-9, 1e-6, 1e6)) if (wkind == 'float' and rnd.random() < 0.3) else 1.0
    W = np.zeros((n, n))
    pairs = [(a, b) for a in range(n) for b in range(n) if (a != b if directed else a < b)]
    for a, b in pairs:
        if rnd.random() < dens:
            mag = {'int': float(rnd.randint(1, 9)), 'float': round(rnd.uniform(0.05, 1.0), 6) * scale, 'unit': 1.0, 'unitc': cmag,
                   'bigint': float(rnd.randint(200, 30000))}[wkind]  # counts whose products overflow a narrow integer type
            w = mag if rnd.random() < 0.6 else -mag
            W[a, b] = w
            if not directed:
                W[b, a] = w
    # guarantee at least one positive and one negative connection
    nz = [(a, b) for a, b in pairs if W[a, b] != 0]
    if len(nz) < 2:
        (a, b), (c, d) = pairs[0], pairs[-1]
        W[a, b] = 2.0
        W[c, d] = -3.0
        if not directed:
            W[b, a], W[d, c] = 2.0, -3.0
    else:
        if not (W > 0).any():
            a, b = nz[0]
            W[a, b] = abs(W[a, b])
            if not directed:
                W[b, a] = W[a, b]
        if not (W < 0).any():
            a, b = nz[-1]
            W[a, b] = -abs(W[a, b])
            if not directed:
                W[b, a] = W[a, b]
    return W, {'n': n, 'dens': dens, 'wkind': wkind, 'directed': directed}
