"""JSON encoding of cases (arrays <-> lists) and small helpers. No bct import here."""
import hashlib
import json

import numpy as np


def enc(a):
    if a is None:
        return None
    a = np.asarray(a)
    if a.dtype.kind == 'f':
        data = [[_f(x) for x in row] for row in a.tolist()] if a.ndim == 2 else _flist(a.tolist())
    else:
        data = a.tolist()
    return {'dtype': str(a.dtype), 'shape': list(a.shape), 'data': data}


def _f(x):
    if x != x:
        return 'nan'
    if x in (float('inf'), float('-inf')):
        return 'inf' if x > 0 else '-inf'
    return x


def _flist(x):
    if isinstance(x, list):
        return [_flist(y) for y in x]
    return _f(x)


def _unf(x):
    if isinstance(x, list):
        return [_unf(y) for y in x]
    if isinstance(x, str):
        return float(x)
    return x


def dec(d):
    if d is None:
        return None
    a = np.array(_unf(d['data']), dtype=np.dtype(d['dtype']))
    return a.reshape(d['shape'])


def case_digest(case):
    return hashlib.sha1(json.dumps(case, sort_keys=True, default=str).encode()).hexdigest()[:12]


def arr_digest(*arrays):
    h = hashlib.sha1()
    for a in arrays:
        a = np.ascontiguousarray(a)
        h.update(str(a.dtype).encode())
        h.update(str(a.shape).encode())
        h.update(a.tobytes())
    return h.hexdigest()[:16]


def short(a, lim=400):
    s = json.dumps(a, default=str)
    return s if len(s) <= lim else s[:lim] + '...'
