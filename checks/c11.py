from scenarios import c11
from . import common
from sim import findings

ASSUME = ['connectivity oracle is an independent BFS (undirected: symmetrised support; directed: forward and backward reachability from node 0)',
          'lattice cost is sum(D*R) in the latticisation frame with the D in use (caller-supplied, or the default reported by the start hook / ring distance)',
          'caller-supplied D is symmetric for the undirected latticisers']


def main(tier, S, runs=None, jobs=None, only=None):
    return common.run('C11', 'exploration', c11.tiers(tier), tier, S, c11.RULE, predicates=findings.PREDICATES, assumptions=ASSUME,
                      runs=runs, jobs=jobs, only=only)


def replay(payload, path):
    return common.replay('C11', c11.tiers('thorough'), payload, path)
