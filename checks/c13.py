from scenarios import c13
from . import common
from sim import findings
from sim.worlds import callermem as CM

ASSUME = ['arguments are synthesised from parameter names; a function whose parameters are not understood is reported as args_not_understood and not judged',
          'excluded: %s' % '; '.join('%s (%s)' % kv for kv in sorted(CM.EXCLUDED.items())),
          'result/argument aliasing is not a violation (the statement is about the argument\'s contents)',
          'deterministic non-raising calls are a plain before/after comparison (no simulation content); counted separately as kind:deterministic_plain']


def post(total, per, cov, lines):
    seen = total['states']
    cov['functions_total'] = len(c13.FUNCS)
    cov['functions_exercised'] = len([f for f in c13.FUNCS if f in seen])
    cov['functions_not_exercised'] = sorted(set(c13.FUNCS) - set(seen))
    cov['seed_accepting_functions'] = len(c13.SEEDED)
    cov['abort_points_enumerated'] = total['probes'].get('abort_points_enumerated', 0)
    cov['exhaustive'] = False
    cov['exhaustive_note'] = 'abort points are exhaustive per run for runs of at most 64 draws (%d runs), sampled beyond (%d runs)' % (
        total['probes'].get('abort_runs_exhaustive', 0), total['probes'].get('abort_runs_sampled_beyond_64', 0))


def main(tier, S, runs=None, jobs=None, only=None):
    return common.run('C13', 'fault_enumeration', c13.tiers(tier), tier, S, c13.RULE, predicates=findings.PREDICATES, assumptions=ASSUME,
                      runs=runs, jobs=jobs, only=only, post=post)


def replay(payload, path):
    return common.replay('C13', c13.tiers('thorough'), payload, path)
