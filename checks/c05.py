from scenarios import c05
from . import common
from sim import findings, registry

ASSUME = ['results are compared bitwise (NaN-aware, structure-aware); an exception outcome is compared by type and message',
          'the global generator is compared field by field (key, pos, has_gauss, cached_gaussian)',
          'excluded entry points: %s' % ', '.join('%s (%s)' % kv for kv in sorted(registry.EXCLUDED.items())),
          'the routines run with real numpy RandomState objects here (no SimRNG): the property is about seeds and the global stream itself']


def post(total, per, cov, lines):
    fns = {k[3:]: v for k, v in total['probes'].items() if k.startswith('fn:')}
    cov['entry_points_in_registry'] = len(registry.NAMES)
    cov['entry_points_exercised'] = len(fns)
    cov['entry_points_never_exercised'] = sorted(set(registry.NAMES) - set(fns))
    cov['real_vs_stub'] = {'real': 'every line of bct; numpy RandomState and the process-global generator are the real ones', 'stub': 'none (the caller is the simulator)'}


def main(tier, S, runs=None, jobs=None, only=None):
    return common.run('C05', 'exploration', c05.tiers(tier), tier, S, c05.RULE, predicates=findings.PREDICATES, assumptions=ASSUME,
                      runs=runs, jobs=jobs, only=only, post=post)


def replay(payload, path):
    return common.replay('C05', c05.tiers('thorough'), payload, path)
