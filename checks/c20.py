from scenarios import c20
from . import common
from sim import findings

ASSUME = ['makeevenCIJ is called with K at least the number of within-cluster connections (feasible K)',
          'degree-sequence pairs come from a random simple digraph, hence satisfy the documented necessary conditions',
          'BCTParamError (could not resolve / infinite loop caught) is a legal outcome for makerandCIJdegreesfixed and maketoeplitzCIJ']


def main(tier, S, runs=None, jobs=None, only=None):
    return common.run('C20', 'exploration', c20.tiers(tier), tier, S, c20.RULE, predicates=findings.PREDICATES, assumptions=ASSUME,
                      runs=runs, jobs=jobs, only=only)


def replay(payload, path):
    return common.replay('C20', c20.tiers('thorough'), payload, path)
