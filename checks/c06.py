from scenarios import c06
from . import common
from sim import findings

ASSUME = ['weights are moved, never computed, so multisets are compared exactly', 'correlations recomputed independently (Pearson, NaN when a sequence is constant), tolerance 1e-9',
          'inputs to randmio_*_signed have an empty diagonal; null_model_* are compared against the input with its diagonal cleared (documented behaviour)']


def main(tier, S, runs=None, jobs=None, only=None):
    return common.run('C06', 'exploration', c06.tiers(tier), tier, S, c06.RULE, predicates=findings.PREDICATES, assumptions=ASSUME,
                      runs=runs, jobs=jobs, only=only)


def replay(payload, path):
    return common.replay('C06', c06.tiers('thorough'), payload, path)
