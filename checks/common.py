"""Glue shared by the per-property check modules."""
from sim import runner


def run(prop, level, scenarios, tier, S, rule, predicates=None, assumptions=(), runs=None, jobs=None, only=None, **kw):
    scns = [s for s in scenarios if only in (None, s.ID)]
    counts = None
    if runs:
        counts = {s.ID: runs for s in scns}
    return runner.run_check(prop, level, scns, tier, S, predicates=predicates, rule=rule, assumptions=assumptions, counts=counts, jobs=jobs, **kw)


def replay(prop, scenarios, payload, path):
    scn = [s for s in scenarios if s.ID == payload['scenario']][0]
    case = payload['case']
    mode = 'strict' if case.get('trace') is not None else 'gen'
    try:
        res = runner.guarded_execute(scn, case, mode)
    except runner.ReplayDiverged as e:
        print('REPLAY-DIVERGED %s' % e)
        return 3
    if res.get('outcome') == 'violation':
        print('VIOLATION property=%s replay=%s' % (prop, path))
        print('  class=%s routine=%s: %s' % (res.get('vclass'), res.get('routine'), res.get('msg')))
        return 1
    print('replay of %s: outcome %s (no violation on this tree)' % (path, res.get('outcome')))
    return 0
