from scenarios import c01
from . import common
from sim import findings

ASSUME = ['oracles (degrees, multisets, symmetry) are independent numpy re-implementations, no bct import',
          'SimRNG explores legal draw sequences; it does not model MT19937 statistics',
          'inputs restricted to the documented domain: empty diagonal, at least two vertex-disjoint edges']


def main(tier, S, runs=None, jobs=None, only=None):
    return common.run('C01', 'exploration', c01.tiers(tier), tier, S, c01.RULE, predicates=findings.PREDICATES, assumptions=ASSUME,
                      runs=runs, jobs=jobs, only=only)


def replay(payload, path):
    return common.replay('C01', c01.tiers('thorough'), payload, path)
