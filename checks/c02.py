from scenarios import c02
from . import common
from sim import findings

ASSUME = ['reference Q is computed from the definition in sim/oracles/modularity.py (no bct import), tolerance 1e-8 absolute',
          'the Potts objective of community_louvain is checked for partition validity only (not a modularity)',
          'inputs have positive total weight; signed inputs have at least one positive and one negative weight']


def main(tier, S, runs=None, jobs=None, only=None):
    return common.run('C02', 'exploration', c02.tiers(tier), tier, S, c02.RULE, predicates=findings.PREDICATES, assumptions=ASSUME,
                      runs=runs, jobs=jobs, only=only)


def replay(payload, path):
    return common.replay('C02', c02.tiers('thorough'), payload, path)
