from scenarios import c07
from . import common
from sim import findings

ASSUME = ['reference Q from sim/oracles/modularity.py; monotonicity tolerance 1e-9',
          'for the Louvain routines the start is the singleton partition',
          'the Potts objective is excluded (not a modularity)']


def main(tier, S, runs=None, jobs=None, only=None):
    return common.run('C07', 'exploration', c07.tiers(tier), tier, S, c07.RULE, predicates=findings.PREDICATES, assumptions=ASSUME,
                      runs=runs, jobs=jobs, only=only)


def replay(payload, path):
    return common.replay('C07', c07.tiers('thorough'), payload, path)
