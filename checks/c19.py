from scenarios import c19
from . import common
from sim import findings

ASSUME = ['t statistics recomputed independently (pooled-variance two-sample t, paired t); runs with a statistic within 1e-9 of the threshold are discarded and counted',
          'constant (zero-variance) connections are equal across groups, so the undefined statistic never exceeds the threshold in either implementation',
          'component size = number of supra-threshold connections inside the component; components recomputed by an independent BFS']


def main(tier, S, runs=None, jobs=None, only=None):
    return common.run('C19', 'exploration', c19.tiers(tier), tier, S, c19.RULE, predicates=findings.PREDICATES, assumptions=ASSUME,
                      runs=runs, jobs=jobs, only=only)


def replay(payload, path):
    return common.replay('C19', c19.tiers('thorough'), payload, path)
