#!/venv/bin/python
"""False-alarm self-test: apply selftest/neutral_refactorings.diff (six semantics-preserving rewrites that change HOW the random
stream is consumed - argsort of uniforms instead of permutation, shuffle instead of permutation, randint coin instead of a uniform,
two randint calls instead of one sized call) to a scratch copy of the repository and run every quick check against it: every check
must exit 0. The draw vocabulary is not part of any property; the verdicts are statement-level and must not depend on it.
usage: neutral.py [--props C01,C19] [--jobs N]"""
import argparse, os, shutil, subprocess, sys, tempfile
HERE = os.path.dirname(os.path.abspath(__file__))
VERIF = os.path.dirname(HERE)
ap = argparse.ArgumentParser()
ap.add_argument('--props', default='C01,C02,C05,C06,C07,C11,C13,C19,C20')
ap.add_argument('--repo', default='/repo')
ap.add_argument('--jobs')
a = ap.parse_args()
root = tempfile.mkdtemp(prefix='bctneutral_')
rc = 0
try:
    d = os.path.join(root, 'repo')
    shutil.copytree(a.repo, d, ignore=shutil.ignore_patterns('.git', '__pycache__', '*.pyc', 'docs', 'function_reference.html'))
    p = subprocess.run(['patch', '-p1', '-s', '-d', d, '-i', os.path.join(HERE, 'neutral_refactorings.diff')], capture_output=True, text=True)
    if p.returncode:
        print('neutral diff does not apply:', p.stdout, p.stderr)
        sys.exit(2)
    for prop in a.props.split(','):
        env = dict(os.environ, BCT_REPO=d, VERIF_OUT=os.path.join(root, 'out'))
        if a.jobs:
            env['VERIF_JOBS'] = a.jobs
        q = subprocess.run(['timeout', '1800', '/venv/bin/python', os.path.join(VERIF, 'check.py'), prop], env=env, capture_output=True, text=True)
        tail = [l for l in q.stdout.splitlines() if l.startswith(prop + ' quick')]
        alarms = [l for l in q.stdout.splitlines() if l.startswith('VIOLATION')]
        print(prop, 'exit', q.returncode, '| alarms', len(alarms), '|', tail[-1] if tail else q.stdout[-200:] + q.stderr[-200:])
        sys.stdout.flush()
        if q.returncode != 0:
            rc = 1
finally:
    shutil.rmtree(root, ignore_errors=True)
print('neutral refactorings:', 'no false alarm' if rc == 0 else 'FALSE ALARM(S)')
sys.exit(rc)
