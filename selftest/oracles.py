#!/venv/bin/python
"""Self-test of the trusted base: the oracles in sim/oracles are compared with second, differently written implementations
(scipy.sparse.csgraph, brute-force sums, scipy.stats) on random inputs.  exit 0 iff everything agrees."""
import os, random, sys
HERE = os.path.dirname(os.path.dirname(os.path.abspath(__file__)))
sys.path.insert(0, HERE)
import numpy as np
from scipy.sparse import csgraph
from scipy import stats
from sim.oracles import graph as G
from sim.oracles import modularity as M

rnd = random.Random(12345)
bad = 0
n_cases = 0
for t in range(3000):
    n = rnd.randint(2, 10)
    A = np.array([[1.0 if (a != b and rnd.random() < rnd.choice((0.15, 0.4))) else 0.0 for b in range(n)] for a in range(n)])
    # connectivity
    U = ((A + A.T) > 0).astype(float)
    nc, lab = csgraph.connected_components(U, directed=False)
    if G.connected_und(A) != (nc == 1):
        bad += 1
        print('connected_und disagrees', A)
    mine = G.components_und(A)
    if len(set(zip(mine.tolist(), lab.tolist()))) != len(set(lab.tolist())):
        bad += 1
        print('components_und disagrees')
    ncs, _ = csgraph.connected_components(A, directed=True, connection='strong')
    if G.strongly_connected(A) != (ncs == 1):
        bad += 1
        print('strongly_connected disagrees', A)
    # ring distance
    D = G.ring_distance_matrix(n)
    for a in range(n):
        for b in range(n):
            if D[a, b] != min((a - b) % n, (b - a) % n):
                bad += 1
    # two disjoint edges (brute force)
    for directed in (False, True):
        S = A if directed else np.triu(U, 1)
        E = list(zip(*np.nonzero(S)))
        bf = any(len({a, b, c, d}) == 4 for (a, b) in E for (c, d) in E)
        if G.two_disjoint_edges(A, directed) != bf:
            bad += 1
            print('two_disjoint_edges disagrees', directed)
    # modularity by brute force double loop
    W = A * np.array([[rnd.choice((1.0, 2.0, 0.5)) for _ in range(n)] for _ in range(n)])
    if W.sum() > 0:
        ci = np.array([rnd.randint(1, 3) for _ in range(n)])
        g = rnd.choice((0.7, 1.0, 1.3))
        s = W.sum()
        q = sum((W[i, j] - g * W[i, :].sum() * W[:, j].sum() / s) for i in range(n) for j in range(n) if ci[i] == ci[j]) / s
        if abs(q - M.q_dir(W, ci, g)) > 1e-12:
            bad += 1
            print('q_dir disagrees')
        Sg = np.triu(W, 1) * np.array([[rnd.choice((1, 1, -1)) for _ in range(n)] for _ in range(n)])
        Sg = Sg + Sg.T
        if (Sg > 0).any() and (Sg < 0).any():
            P, N = Sg * (Sg > 0), -Sg * (Sg < 0)
            sp, sn = P.sum(), N.sum()
            qp = sum((P[i, j] - g * P[i].sum() * P[j].sum() / sp) for i in range(n) for j in range(n) if ci[i] == ci[j])
            qn = sum((N[i, j] - g * N[i].sum() * N[j].sum() / sn) for i in range(n) for j in range(n) if ci[i] == ci[j])
            exp = {'sta': qp / sp - qn / (sp + sn), 'pos': qp / sp, 'smp': qp / sp - qn / sn, 'gja': (qp - qn) / (sp + sn), 'neg': -qn / sn}
            for qt, e in exp.items():
                if abs(e - M.q_sign(Sg, ci, g, qt)) > 1e-12:
                    bad += 1
                    print('q_sign disagrees', qt)
    n_cases += 1
# t statistics of the NBS oracle against scipy.stats
from scenarios import c19
for t in range(500):
    nx, ny = rnd.randint(3, 8), rnd.randint(3, 8)
    x = np.array([[rnd.gauss(0, 1) for _ in range(nx)] for _ in range(5)])
    y = np.array([[rnd.gauss(0.5, 1) for _ in range(ny)] for _ in range(5)])
    tt = stats.ttest_ind(x, y, axis=1, equal_var=True).statistic
    if not np.allclose(c19.tstats(x, y, 'right', False), tt, rtol=1e-10):
        bad += 1
        print('unpaired t disagrees')
    if not np.allclose(c19.tstats(x, y, 'left', False), -tt, rtol=1e-10) or not np.allclose(c19.tstats(x, y, 'both', False), np.abs(tt), rtol=1e-10):
        bad += 1
    y2 = np.array([[rnd.gauss(0.3, 1) for _ in range(nx)] for _ in range(5)])
    tp = stats.ttest_rel(x, y2, axis=1).statistic
    if not np.allclose(c19.tstats(x, y2, 'right', True), tp, rtol=1e-10):
        bad += 1
        print('paired t disagrees')
print('oracle self-test: %d graph/modularity cases + 500 t-statistic cases, %d disagreement(s)' % (n_cases, bad))
sys.exit(0 if bad == 0 else 1)
