#!/venv/bin/python
"""Determinism self-test: every scenario, N sub-seeds each, executed (a) twice in one process, (b) in a fresh interpreter
under another PYTHONHASHSEED; result digests must be equal. Then each quick check is run at two worker counts and the
aggregated evidence (runs, events, outcomes, distinct traces) must be identical.
usage: determinism.py [--n 300] [--props C01,C05] [--skip-workers]"""
import argparse, hashlib, importlib, json, os, subprocess, sys, tempfile
HERE = os.path.dirname(os.path.abspath(__file__))
VERIF = os.path.dirname(HERE)
sys.path.insert(0, VERIF)
PROPS = ['C01', 'C02', 'C05', 'C06', 'C07', 'C11', 'C13', 'C19', 'C20']


def rdigest(res):
    h = hashlib.sha1()
    h.update(repr((res.get('outcome'), res.get('vclass'), res.get('ndraws'), res.get('digest'), res.get('forced'),
                   sorted((k, int(v)) for k, v in (res.get('probes') or {}).items()))).encode())
    return h.hexdigest()[:16]


def emit(prop, n, S):
    from sim.rng import subseed
    from sim import runner
    mod = importlib.import_module('scenarios.' + prop.lower())
    out = {}
    for scn in mod.tiers('quick'):
        for r in range(n):
            sub = subseed(S, scn.PROP, scn.ID, r)
            case = scn.generate_r(sub, r) if hasattr(scn, 'generate_r') else scn.generate(sub)
            res = runner.guarded_execute(scn, case, 'gen')
            out['%s:%d' % (scn.ID, r)] = rdigest(res)
    return out


def main():
    ap = argparse.ArgumentParser()
    ap.add_argument('--n', type=int, default=300)
    ap.add_argument('--props')
    ap.add_argument('--emit')
    ap.add_argument('--skip-workers', action='store_true')
    a = ap.parse_args()
    S = int(os.environ.get('VERIF_SEED', '424242'))
    if a.emit:
        json.dump(emit(a.emit, a.n, S), sys.stdout)
        return 0
    props = a.props.split(',') if a.props else PROPS
    bad = 0
    summary = {}
    for prop in props:
        d1 = emit(prop, a.n, S)
        d2 = emit(prop, a.n, S)
        outs = []
        for hs in ('0', '98765'):
            env = dict(os.environ, PYTHONHASHSEED=hs, VERIF_SEED=str(S))
            p = subprocess.run([sys.executable, os.path.abspath(__file__), '--emit', prop, '--n', str(a.n)], env=env, capture_output=True, text=True)
            if p.returncode != 0:
                print(prop, 'emit failed', p.stderr[-500:])
                bad += 1
                continue
            outs.append(json.loads(p.stdout[p.stdout.index('{'):]))
        diffs = [k for k in d1 if d1[k] != d2[k] or any(o.get(k) != d1[k] for o in outs)]
        summary[prop] = {'runs_compared': len(d1), 'executions_each': 2 + len(outs), 'diverging': len(diffs)}
        print('%s: %d runs x %d executions (2 in-process, %d fresh interpreters with PYTHONHASHSEED 0/98765): %d diverging %s' % (
            prop, len(d1), 2 + len(outs), len(outs), len(diffs), diffs[:5]))
        bad += len(diffs)
    if not a.skip_workers:
        for prop in props:
            sig = []
            for jobs in ('3', '16'):
                with tempfile.TemporaryDirectory(prefix='bctdet') as td:
                    env = dict(os.environ, VERIF_OUT=td, VERIF_SEED=str(S), VERIF_JOBS=jobs)
                    p = subprocess.run(['timeout', '1200', sys.executable, os.path.join(VERIF, 'check.py'), prop, '--tier', 'quick'], env=env, capture_output=True, text=True)
                    try:
                        c = json.load(open(os.path.join(td, 'evidence', prop + '.json')))['coverage']
                        sig.append((p.returncode, c['evaluations'], c['simulated_time_events'], c['distinct_nontrivial'], json.dumps(c['outcomes'], sort_keys=True),
                                    json.dumps(c['reach_probes'], sort_keys=True), json.dumps(c['fault_kinds_fired'], sort_keys=True)))
                    except Exception as e:
                        sig.append(('error', repr(e), p.stdout[-300:]))
            same = sig[0] == sig[1]
            summary[prop]['worker_counts_3_vs_16_identical'] = same
            print('%s: quick check at 3 vs 16 workers: %s' % (prop, 'identical aggregate' if same else 'DIFFERENT %s' % (sig,)))
            bad += 0 if same else 1
    json.dump(summary, open(os.path.join(HERE, 'determinism_result.json'), 'w'), indent=1)
    print('determinism self-test:', 'OK' if not bad else 'FAILED (%d)' % bad)
    return 0 if not bad else 1


if __name__ == '__main__':
    sys.exit(main())
