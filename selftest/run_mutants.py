#!/venv/bin/python
"""Sensitivity self-test: apply each catalogue mutant to a scratch copy of the repository, run the quick
check of its property against the copy, expect VIOLATION (exit 1); finally expect silence on the clean copy.
usage: run_mutants.py [--only m01,m02] [--props C01,C05] [--runs N] [--keep]"""
import argparse, json, os, shutil, subprocess, sys, tempfile, time
HERE = os.path.dirname(os.path.abspath(__file__))
VERIF = os.path.dirname(HERE)
sys.path.insert(0, HERE)
from mutants import MUTANTS


def apply(root, m):
    p = os.path.join(root, m['file'])
    s = open(p).read()
    cnt = s.count(m['old'])
    if 'nth' in m:
        if cnt <= m['nth']:
            return 'anchor occurs %d times, nth=%d' % (cnt, m['nth'])
        idx = -1
        for _ in range(m['nth'] + 1):
            idx = s.index(m['old'], idx + 1)
        s = s[:idx] + m['new'] + s[idx + len(m['old']):]
    else:
        if cnt != 1:
            return 'anchor occurs %d times (expected 1)' % cnt
        s = s.replace(m['old'], m['new'])
    open(p, 'w').write(s)
    return None


def main():
    ap = argparse.ArgumentParser()
    ap.add_argument('--only')
    ap.add_argument('--props')
    ap.add_argument('--repo', default='/repo')
    ap.add_argument('--tier', default='quick')
    ap.add_argument('--out', default=os.path.join(VERIF, 'selftest', 'mutants_result.json'))
    a = ap.parse_args()
    sel = [m for m in MUTANTS if (not a.only or m['id'] in a.only.split(',')) and (not a.props or m['prop'] in a.props.split(','))]
    results = []
    scratch_root = tempfile.mkdtemp(prefix='bctmut_')
    try:
        for m in sel:
            d = os.path.join(scratch_root, m['id'])
            shutil.copytree(a.repo, d, ignore=shutil.ignore_patterns('.git', '__pycache__', '*.pyc', 'docs', 'function_reference.html'))
            err = apply(d, m)
            rec = {'id': m['id'], 'property': m['prop'], 'note': m['note']}
            if err:
                rec.update(status='NOT-APPLIED', detail=err)
            else:
                out = os.path.join(scratch_root, m['id'] + '_out')
                env = dict(os.environ, BCT_REPO=d, VERIF_OUT=out)
                t0 = time.time()
                p = subprocess.run(['timeout', '900', '/venv/bin/python', os.path.join(VERIF, 'check.py'), m['prop'], '--tier', a.tier], env=env, capture_output=True, text=True)
                vl = [l for l in p.stdout.splitlines() if l.startswith('VIOLATION')]
                detail = [l.strip() for l in p.stdout.splitlines() if l.startswith('  class=')][:2]
                rec.update(status='KILLED' if p.returncode == 1 and vl else 'SURVIVED(exit %d)' % p.returncode, wall_s=round(time.time() - t0, 1), detail=detail or p.stdout[-300:] + p.stderr[-300:])
            print(rec['id'], rec['property'], rec['status'], '|', m['note'], '|', (rec.get('detail') or [''])[0][:160] if isinstance(rec.get('detail'), list) else rec.get('detail'))
            sys.stdout.flush()
            results.append(rec)
            shutil.rmtree(d, ignore_errors=True)
            shutil.rmtree(os.path.join(scratch_root, m['id'] + '_out'), ignore_errors=True)
    finally:
        shutil.rmtree(scratch_root, ignore_errors=True)
    killed = sum(1 for r in results if r['status'] == 'KILLED')
    print('mutants killed %d / %d' % (killed, len(results)))
    if not a.only and not a.props:
        json.dump({'killed': killed, 'total': len(results), 'results': results}, open(a.out, 'w'), indent=1)
    sys.exit(0 if killed == len(results) else 1)


if __name__ == '__main__':
    main()
